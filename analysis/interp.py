"""A small abstract interpreter over the extracted MIR facts.

Purpose: *fold tables that are written as code* (decision functions over finite domains, straight-line emission
templates such as setup/cleanup/move_arguments, const fns such as arg(n)/jump_length(n)).  It interprets facts, it never
runs the compiler.  Values are concrete constants, ADT values, vectors, references, or symbolic/unknown values; a branch on
an unknown value forks the path (bounded).  Calls are resolved by (1) caller-supplied hooks, (2) models of a few std
functions, (3) inlining the workspace body up to a depth bound; anything else yields Unknown.
"""
import copy
import os
import re
import sys

from .facts import AnalysisError


class Unknown:
    def __init__(self, why=""):
        self.why = why

    def __repr__(self):
        return "?" + (("<%s>" % self.why) if self.why else "")


RDEPTH_LIMIT = 32


class Sym:
    """symbolic value with a name; field reads produce derived symbols"""

    def __init__(self, name, attrs=None, adt=None):
        self.name = name
        self.attrs = attrs or {}
        self.adt = adt              # ADT path when known
        self.inst = None            # instantiated field table of the struct this symbol stands for (from the facts)
        self.excluded = set()       # variants ruled out on this path

    def field(self, n):
        if n not in self.attrs:
            self.attrs[n] = Sym(self.name + "." + n)
        return self.attrs[n]

    def __repr__(self):
        if self.attrs:
            return "$%s{%s}" % (self.name, ", ".join("%s: %r" % kv for kv in sorted(self.attrs.items())))
        return "$" + self.name + ("!{%s}" % ",".join(sorted(self.excluded)) if self.excluded else "")

    def __eq__(self, o):
        return isinstance(o, Sym) and o.name == self.name

    def __hash__(self):
        return hash(self.name)


class Bytes:
    def __init__(self, b):
        self.b = list(b)

    def __repr__(self):
        return "bytes(%d)" % len(self.b)


class StrCat:
    """string with symbolic parts"""

    def __init__(self, parts):
        self.parts = []
        for p in parts:
            if isinstance(p, StrCat):
                self.parts.extend(p.parts)
            elif isinstance(p, str) and self.parts and isinstance(self.parts[-1], str):
                self.parts[-1] += p
            else:
                self.parts.append(p)

    def __repr__(self):
        return "str(%s)" % " ++ ".join(repr(p) for p in self.parts)

    def __eq__(self, o):
        return isinstance(o, StrCat) and repr(o) == repr(self)

    def __hash__(self):
        return hash(repr(self))


def strcat(parts):
    s = StrCat(parts)
    if all(isinstance(p, str) for p in s.parts):
        return "".join(s.parts)
    return s


class FmtArgs:
    def __init__(self, parts):
        self.parts = parts

    def __repr__(self):
        return "fmt(%r)" % (self.parts,)


def decode_template(b, args):
    """decode core::fmt's compact template byte sequence into a list of literal pieces and argument values"""
    out = []
    i = 0
    nxt = 0
    while i < len(b):
        n = b[i]
        i += 1
        if n == 0:
            break
        if n < 0x80:
            out.append(bytes(b[i:i + n]).decode("utf-8", "replace"))
            i += n
        elif n == 0x80:
            ln = b[i] | (b[i + 1] << 8)
            i += 2
            out.append(bytes(b[i:i + ln]).decode("utf-8", "replace"))
            i += ln
        elif n & 0xC0 == 0xC0:
            if n & 0x01:
                i += 4
            if n & 0x02:
                i += 2
            if n & 0x04:
                i += 2
            idx = nxt
            if n & 0x08:
                idx = b[i] | (b[i + 1] << 8)
                i += 2
            nxt = idx + 1
            out.append(args[idx] if idx < len(args) else Unknown("fmtarg"))
        else:
            out.append(Unknown("template"))
            break
    return out


class DiscrOf:
    """discriminant of a symbolic value at a place; a switch on it forks per variant and refines the place"""

    def __init__(self, ref, adt, sym):
        self.ref = ref
        self.adt = adt
        self.sym = sym

    def __repr__(self):
        return "discr(%r)" % (self.sym,)


class SymExpr:
    """comparison / arithmetic over symbolic values, kept as a term (no solving)"""

    def __init__(self, op, a, b=None):
        self.op = op
        self.a = a
        self.b = b

    def __repr__(self):
        return "%s(%r%s)" % (self.op, self.a, "" if self.b is None else ", %r" % (self.b,))


class Adt:
    def __init__(self, path, variant, fields):
        self.path = path
        self.variant = variant
        self.fields = fields

    def __repr__(self):
        p = self.path.split("::")[-1] if self.path else "tuple"
        v = "" if self.variant in (None, p) else "::" + self.variant
        if not self.fields:
            return p + v
        return "%s%s(%s)" % (p, v, ", ".join("%s" % (val,) if k.isdigit() else "%s: %s" % (k, val) for k, val in self.fields.items()))

    def __eq__(self, o):
        return isinstance(o, Adt) and o.path == self.path and o.variant == self.variant and o.fields == self.fields

    def __hash__(self):
        return hash((self.path, self.variant, tuple(sorted((k, repr(v)) for k, v in self.fields.items()))))


class Vec:
    def __init__(self, items=None):
        self.items = list(items or [])

    def __repr__(self):
        return "[%s]" % ", ".join(map(repr, self.items))

    def __eq__(self, o):
        return isinstance(o, Vec) and o.items == self.items


def _hkey(v):
    """hashable identity of a concrete abstract value (scalars are their own key)"""
    if isinstance(v, (int, str)) and not isinstance(v, bool):
        return v
    return "#" + repr(v)


def ord_key(v, fx=None):
    """sort key realising the derived `Ord` of concrete values: variant index, then fields in declaration order"""
    if isinstance(v, bool):
        return (0, int(v))
    if isinstance(v, int):
        return (0, v)
    if isinstance(v, str):
        return (1, v)
    if isinstance(v, Adt):
        vi = 0
        names = sorted(v.fields)
        a = fx.adts.get(v.path) if fx is not None and v.path else None
        if a:
            for i, var in enumerate(a["variants"]):
                if var["name"] == v.variant:
                    vi = i
                    names = [f["name"] for f in var["fields"]]
        return (2, vi, tuple(ord_key(v.fields.get(n), fx) for n in names))
    return (3, repr(v))


class SetVal:
    """std HashSet/BTreeSet of concrete values (scalars, or ADT values identified structurally)"""

    def __init__(self, items=()):
        self.vals = {}
        for x in items:
            self.vals[_hkey(x)] = x

    @property
    def items(self):
        return set(self.vals)

    def add(self, x):
        k = _hkey(x)
        new = k not in self.vals
        self.vals[k] = x
        return new

    def discard(self, x):
        return self.vals.pop(_hkey(x), None) is not None

    def has(self, x):
        return _hkey(x) in self.vals

    def ordered(self, fx=None):
        return sorted(self.vals.values(), key=lambda v: ord_key(v, fx))

    def __repr__(self):
        return "set(%s)" % sorted(map(repr, self.vals.values()))


class MapVal:
    """std BTreeMap/HashMap with concrete keys"""

    def __init__(self, pairs=()):
        self.keys_ = {}
        self.vals = {}
        for k, v in pairs:
            self.put(k, v)

    def put(self, k, v):
        h = _hkey(k)
        old = self.vals.get(h)
        self.keys_[h] = k
        self.vals[h] = v
        return old

    def get(self, k):
        return self.vals.get(_hkey(k))

    def has(self, k):
        return _hkey(k) in self.vals

    def ordered(self, fx=None):
        hs = sorted(self.keys_, key=lambda h: ord_key(self.keys_[h], fx))
        return [(self.keys_[h], self.vals[h]) for h in hs]

    def __repr__(self):
        return "map(%s)" % ", ".join("%r: %r" % kv for kv in self.ordered())


class Ref:
    def __init__(self, frame, local, proj):
        self.frame = frame
        self.local = local
        self.proj = proj

    def __repr__(self):
        return "&_%d%s" % (self.local, "".join("." + str(p) for p in self.proj))


class FnVal:
    def __init__(self, path, closure=False, captures=None, targs=None):
        self.path = path
        self.closure = closure
        self.captures = captures
        self.targs = targs or []        # names of the generic arguments of a function item (`<Backend as Instructions<..>>::add` -> ["Backend", ..])

    def __repr__(self):
        return "fn:" + self.path


class Fork:
    """several possible results of a modelled call, each with the reason it is taken"""

    def __init__(self, alts):
        self.alts = alts


class Iter:
    def __init__(self, items=None, sym=None):
        self.items = items      # concrete list or None
        self.pos = 0
        self.sym = sym          # symbolic source description
        self.sym_done = False

    def __repr__(self):
        return "iter(%s)" % (self.sym if self.items is None else self.items[self.pos:])


class Frame:
    def __init__(self, f, args):
        self.f = f
        self.locals = [Unknown("uninit")] * len(f["locals"])
        for i, a in enumerate(args):
            if i + 1 < len(self.locals):
                self.locals[i + 1] = a
        self.bb = 0
        self.si = 0
        self.dest = None        # place in the caller to receive the result
        self.ret_to = None


class Path:
    def __init__(self):
        self.frames = []
        self.conds = []         # list of (description, value)
        self.events = []        # hook-defined
        self.result = None
        self.steps = 0
        self.loop_marks = []


class Interp:
    def __init__(self, fx, hooks=None, max_depth=4, max_paths=512, max_steps=20000, inline=None, type_env=None):
        self.fx = fx
        self.hooks = hooks or []
        self.type_env = type_env or {}     # generic parameter name -> ADT path (instantiation of generic workspace functions)
        self.max_depth = max_depth
        self.max_paths = max_paths
        self.max_steps = max_steps
        self.inline = inline    # predicate(callee key) -> bool; default: workspace functions

    # ---------------- places ----------------
    def _norm_ref(self, frame, pl):
        """Ref to a place, normalising leading derefs of reference-valued locals"""
        l = pl["l"]
        proj = list(pl["p"])
        base = frame.locals[l]
        fr, lo, pr = frame, l, []
        i = 0
        while i < len(proj):
            e = proj[i]
            if e == "*":
                cur = self._read(fr, lo, pr)
                if isinstance(cur, Ref):
                    fr, lo, pr = cur.frame, cur.local, list(cur.proj)
                else:
                    pr = pr + ["*"]
            elif isinstance(e, dict) and "idx" in e and "frame" not in e:
                # an index by a local: the local belongs to the frame the place is written in, not to the frame the reference leads
                # into - resolve it now when it is a number, otherwise remember its frame
                iv = frame.locals[e["idx"]]
                if isinstance(iv, int) and not isinstance(iv, bool):
                    pr = pr + [{"cidx": iv}]
                else:
                    pr = pr + [dict(e, frame=frame)]
            else:
                pr = pr + [e]
            i += 1
        return Ref(fr, lo, pr)

    def _read(self, frame, local, proj):
        v = frame.locals[local]
        for e in proj:
            v = self._proj(v, e, frame)
        return v

    def _proj(self, v, e, frame):
        if e == "*":
            if isinstance(v, Ref):
                return self._read(v.frame, v.local, v.proj)
            return v    # Box/Rc deref of a by-value model
        if isinstance(e, dict) and "f" in e:
            n = e["n"]
            if isinstance(v, Adt):
                return v.fields.get(n, Unknown("field " + n))
            if isinstance(v, Sym):
                return v.field(n)
            return Unknown("field %s of %r" % (n, v))
        if isinstance(e, dict) and "dc" in e:
            return v
        if isinstance(e, dict) and "idx" in e:
            i = e.get("frame", frame).locals[e["idx"]]
            if isinstance(v, Vec) and isinstance(i, int) and 0 <= i < len(v.items):
                return v.items[i]
            return Unknown("index")
        if isinstance(e, dict) and "cidx" in e:
            if isinstance(v, Vec):
                i = e["cidx"]
                i = len(v.items) - i if e.get("from_end") else i
                if 0 <= i < len(v.items):
                    return v.items[i]
            return Unknown("cindex")
        return Unknown("proj")

    def read_place(self, frame, pl):
        r = self._norm_ref(frame, pl)
        return self._read(r.frame, r.local, r.proj)

    def write_place(self, frame, pl, val):
        r = self._norm_ref(frame, pl)
        self.write_ref(r, val)

    def write_ref(self, r, val):
        if not r.proj:
            r.frame.locals[r.local] = val
            return
        v = r.frame.locals[r.local]
        for e in r.proj[:-1]:
            v = self._proj(v, e, r.frame)
        e = r.proj[-1]
        if e == "*":
            if isinstance(v, Ref):
                self.write_ref(v, val)
            return
        if isinstance(e, dict) and "f" in e and isinstance(v, Adt):
            v.fields[e["n"]] = val
        elif isinstance(e, dict) and "f" in e and isinstance(v, Sym):
            v.attrs[e["n"]] = val
        elif isinstance(e, dict) and "idx" in e and isinstance(v, Vec):
            i = e.get("frame", r.frame).locals[e["idx"]]
            if isinstance(i, int) and 0 <= i < len(v.items):
                v.items[i] = val
        elif isinstance(e, dict) and "cidx" in e and isinstance(v, Vec):
            i = len(v.items) - e["cidx"] if e.get("from_end") else e["cidx"]
            if 0 <= i < len(v.items):
                v.items[i] = val

    def _cell_of(self, r):
        """follow Ref chains so that writing through the result replaces the value itself"""
        n = 0
        while n < 8:
            cur = self._read(r.frame, r.local, r.proj)
            if isinstance(cur, Ref):
                r = cur
                n += 1
            else:
                return r
        return r

    def _place_ty(self, frame, pl):
        ty = frame.f["locals"][pl["l"]]["ty"]
        for e in pl["p"]:
            if isinstance(e, dict) and "f" in e:
                ty = e.get("ty") or ""
            elif e == "*":
                ty = ty.lstrip("&").replace("mut ", "", 1) if ty.startswith("&") else ty
        return ty.lstrip("&").strip()

    def _place_adt(self, frame, pl):
        for e in reversed(pl["p"]):
            if isinstance(e, dict) and "f" in e:
                return e.get("adt")
        loc = frame.f["locals"][pl["l"]]
        return loc.get("core") or loc.get("adt")

    def deref(self, v):
        n = 0
        while isinstance(v, Ref) and n < 8:
            v = self._read(v.frame, v.local, v.proj)
            n += 1
        return v

    # ---------------- operands / rvalues ----------------
    def operand(self, frame, o):
        k = o["k"]
        if k in ("copy", "move"):
            return self.read_place(frame, o["pl"])
        if k == "const":
            if "val" in o:
                if o["ty"] == "bool":
                    return bool(o["val"])
                return o["val"]
            if "str" in o:
                return o["str"]
            if "bytes" in o:
                return Bytes(o["bytes"])
            if "fn" in o:
                targs = [x.split("/")[0].strip() for x in (o.get("fn_args") or "").strip("[]").split(",") if x.strip()]
                return FnVal(o.get("fn_res") or o["fn"], targs=targs)
            if "closure" in o:
                return FnVal(o["closure"], closure=True)
            if "promoted" in o:
                return self.eval_promoted(frame, o)
            if "def" in o:
                c = self.fx.consts.get(o["def"])
                if c is not None:
                    if "val" in c:
                        return bool(c["val"]) if c["ty"] == "bool" else c["val"]
                    if "str" in c:
                        return c["str"]
                    if "repr" in c:
                        return parse_repr(c["repr"], c["ty"], self.fx, crate=o["def"].split("::")[0])
                return Unknown("const " + o["def"])
            if o["ty"] == "()":
                return Adt(None, None, {})
            return Unknown("const " + o["ty"])
        return Unknown(k)

    def eval_promoted(self, frame, o):
        key = None
        base = frame.f["key"].split("::{promoted#")[0]
        cand = "%s::{promoted#%d}" % (base, o["promoted"])
        f = self.fx.fns.get(cand)
        if f is None:
            return Unknown("promoted")
        outs = self.run(f, [], depth=self.max_depth)     # no inlining inside promoteds needed
        if len(outs) == 1:
            v = outs[0].result
            # promoted bodies return a reference to the value
            return v
        return Unknown("promoted-paths")

    def rvalue(self, frame, rv):
        k = rv["k"]
        if k == "use":
            return self.operand(frame, rv["op"])
        if k in ("ref", "rawptr"):
            return self._norm_ref(frame, rv["pl"])
        if k == "agg":
            ops = [self.operand(frame, o) for o in rv["ops"]]
            a = rv["agg"]
            if a == "adt":
                return Adt(rv["adt"], rv["variant"], dict(zip(rv["fields"], ops)))
            if a == "tuple":
                return Adt(None, None, {str(i): v for i, v in enumerate(ops)})
            if a == "array":
                return Vec(ops)
            if a == "closure":
                return FnVal(rv["closure"], closure=True, captures=ops)
            return Unknown("agg " + a)
        if k == "cast":
            v = self.operand(frame, rv["op"])
            if rv["kind"] in ("IntToInt",) and isinstance(v, int) and not isinstance(v, bool):
                return _wrap_int(v, rv["ty"])
            if rv["kind"].startswith("PointerCoercion") or rv["kind"] in ("PtrToPtr", "Transmute", "Subtype"):
                return v
            if rv["kind"] == "IntToInt" and isinstance(v, bool):
                return int(v)
            return v if not isinstance(v, (int, bool)) else Unknown("cast")
        if k == "binop":
            a = self.operand(frame, rv["a"])
            b = self.operand(frame, rv["b"])
            return _binop(rv["op"], a, b)
        if k == "unop":
            a = self.operand(frame, rv["a"])
            if rv["op"] == "Not":
                if isinstance(a, bool):
                    return not a
                if isinstance(a, int):
                    return ~a
                return Unknown("not")
            if rv["op"] == "Neg" and isinstance(a, int):
                return -a
            if rv["op"] == "PtrMetadata":
                d = self.deref(a)
                if isinstance(d, Vec):
                    return len(d.items)
                return Unknown("len")
            return Unknown("unop")
        if k == "discr":
            v = self.read_place(frame, rv["pl"])
            v = self.deref(v)
            if isinstance(v, Adt) and v.path in self.fx.adts:
                names = [x["name"] for x in self.fx.adts[v.path]["variants"]]
                if v.variant in names:
                    return names.index(v.variant)
            if isinstance(v, Adt) and v.path == "core::option::Option":
                return 1 if v.variant == "Some" else 0
            if isinstance(v, Adt) and v.path == "core::result::Result":
                return 0 if v.variant == "Ok" else 1
            if isinstance(v, Adt) and v.path == "core::ops::control_flow::ControlFlow":
                return 0 if v.variant == "Continue" else 1
            if isinstance(v, Adt) and v.path == "core::cmp::Ordering":
                # i8 discriminants -1 / 0 / 1; a switch lists them as unsigned (255)
                return {"Less": 255, "Equal": 0, "Greater": 1}.get(v.variant, Unknown("discr"))
            if isinstance(v, Sym):
                pty = self._place_ty(frame, rv["pl"])
                if pty.startswith(("std::option::Option<", "core::option::Option<")) and v.adt != "core::option::Option!inner":
                    r = self._norm_ref(frame, rv["pl"])
                    return DiscrOf(self._cell_of(r), "core::option::Option", v)
                adt = v.adt or self._place_adt(frame, rv["pl"])
                if adt in self.fx.adts and self.fx.adts[adt]["kind"] == "enum":
                    r = self._norm_ref(frame, rv["pl"])
                    # the reference may point at a reference to the symbolic value: resolve to the innermost cell
                    return DiscrOf(self._cell_of(r), adt, v)
            return Unknown("discr of %r" % (v,))
        if k == "repeat":
            return Unknown("repeat")
        return Unknown(k)

    # ---------------- execution ----------------
    def run(self, f, args, depth=0, path=None):
        """Interpret function facts `f` on argument values; returns the list of completed Paths."""
        p = path or Path()
        args = [self.canon_value(a) for a in args]
        fr = Frame(f, args)
        fr.depth = depth
        p.frames.append(fr)
        done = []
        work = [p]
        npaths = 0
        while work:
            p = work.pop()
            res = self._run_path(p, work, len(p.frames) - 1 if path is None else 0)
            if res is not None:
                done.append(res)
            npaths += 1
            if npaths > self.max_paths:
                raise AnalysisError("interp: path explosion in %s" % f["key"])
        return done

    def _run_path(self, p, work, base_depth):
        while True:
            p.steps += 1
            if p.steps > self.max_steps:
                raise AnalysisError("interp: step limit in %s" % p.frames[0].f["key"])
            fr = p.frames[-1]
            blk = fr.f["blocks"][fr.bb]
            if fr.si < len(blk["stmts"]):
                s = blk["stmts"][fr.si]
                fr.si += 1
                if s["k"] == "assign":
                    v = self.rvalue(fr, s["rv"])
                    if isinstance(v, int) and not isinstance(v, bool) and s["rv"]["k"] in ("unop", "binop") and not s["lhs"]["p"]:
                        v = _wrap_int(v, fr.f["locals"][s["lhs"]["l"]]["ty"])
                    if s["rv"]["k"] == "agg" and s["rv"].get("agg") == "array":
                        fr.last_array = v       # `vec![..]` writes the array through a raw box pointer, see box_assume_init_into_vec_unsafe
                    self.write_place(fr, s["lhs"], v)
                continue
            t = blk["term"]
            k = t["k"]
            if k == "goto":
                fr.bb, fr.si = t["target"], 0
            elif k == "drop":
                fr.bb, fr.si = t["target"], 0
            elif k == "assert":
                fr.bb, fr.si = t["target"], 0
            elif k == "return":
                val = fr.locals[0]
                p.frames.pop()
                if not p.frames:
                    p.result = val
                    p.final = fr
                    return p
                caller = p.frames[-1]
                self.write_place(caller, fr.dest, val)
                if fr.ret_to is None:
                    p.result = Unknown("diverge")
                    return p
                caller.bb, caller.si = fr.ret_to, 0
            elif k == "switch":
                v = self.operand(fr, t["discr"])
                if isinstance(v, bool):
                    v = int(v)
                if isinstance(v, int):
                    tgt = t["otherwise"]
                    for val, b in t["targets"]:
                        if val == v:
                            tgt = b
                    fr.bb, fr.si = tgt, 0
                elif isinstance(v, DiscrOf) and v.adt == "core::option::Option":
                    alts = []
                    for val, b in t["targets"]:
                        alts.append(("Some" if val == 1 else "None", b))
                    named = {a for a, _ in alts}
                    rest = [x for x in ("None", "Some") if x not in named]
                    if rest and not (fr.f["blocks"][t["otherwise"]]["term"]["k"] == "unreachable" and not fr.f["blocks"][t["otherwise"]]["stmts"]):
                        for x in rest:
                            alts.append((x, t["otherwise"]))
                    states = [p] + [copy.deepcopy(p) for _ in alts[1:]]
                    for (choice, b), q in zip(alts, states):
                        qfr = q.frames[-1]
                        dv = self.operand(qfr, t["discr"]) if q is not p else v
                        if choice == "Some":
                            inner = Sym(dv.sym.name, adt=dv.sym.adt)
                            inner.attrs = dv.sym.attrs
                            self.write_ref(dv.ref, Adt("core::option::Option", "Some", {"0": inner}))
                        else:
                            self.write_ref(dv.ref, Adt("core::option::Option", "None", {}))
                        q.conds.append((dv.sym.name, choice, fr.f["key"], fr.bb))
                        qfr.bb, qfr.si = b, 0
                        if q is not p:
                            work.append(q)
                elif isinstance(v, DiscrOf):
                    names = [x["name"] for x in self.fx.adts[v.adt]["variants"]]
                    named = [names[val] for val, b in t["targets"] if val < len(names)]
                    alts = []
                    for val, b in t["targets"]:
                        if val < len(names) and names[val] not in v.sym.excluded:
                            alts.append((names[val], b))
                    rest = [x for x in names if x not in named and x not in v.sym.excluded]
                    if rest and not (fr.f["blocks"][t["otherwise"]]["term"]["k"] == "unreachable" and not fr.f["blocks"][t["otherwise"]]["stmts"]):
                        alts.append((("not", tuple(named)), t["otherwise"]))
                    if not alts:
                        p.result = Unknown("unreachable")
                        return p
                    states = [p] + [copy.deepcopy(p) for _ in alts[1:]]
                    for (choice, b), q in zip(alts, states):
                        qfr = q.frames[-1]
                        dv = self.operand(qfr, t["discr"]) if q is not p else v
                        if isinstance(choice, str):
                            vdef = [x for x in self.fx.adts[v.adt]["variants"] if x["name"] == choice][0]
                            flds = {}
                            for fd in vdef["fields"]:
                                cs = Sym(dv.sym.name + "." + fd["name"], adt=fd.get("core") if fd.get("core") in self.fx.adts else None)
                                if cs.name.count(".") > RDEPTH_LIMIT:
                                    raise AnalysisError("interp: %s refines a symbolic %s more than %d levels deep (a loop over an unknown tree)" %
                                                        (fr.f["key"], v.adt.split("::")[-1], RDEPTH_LIMIT))
                                cs.inst = fd.get("inst") or None
                                flds[fd["name"]] = cs
                            self.write_ref(dv.ref, Adt(v.adt, choice, flds))
                            q.conds.append((dv.sym.name, choice, fr.f["key"], fr.bb))
                        else:
                            cur = self._read(dv.ref.frame, dv.ref.local, dv.ref.proj)
                            if isinstance(cur, Sym):
                                cur.excluded |= set(choice[1])
                                if cur.adt is None:
                                    cur.adt = v.adt
                            q.conds.append((dv.sym.name, choice, fr.f["key"], fr.bb))
                        qfr.bb, qfr.si = b, 0
                        if q is not p:
                            work.append(q)
                else:
                    # fork
                    alts = [(val, b) for val, b in t["targets"]] + [("else", t["otherwise"])]
                    seen_t = set()
                    first = True
                    forks = []
                    for val, b in alts:
                        if fr.f["blocks"][b]["term"]["k"] == "unreachable" and not fr.f["blocks"][b]["stmts"]:
                            continue
                        forks.append((val, b))
                    if not forks:
                        p.result = Unknown("unreachable")
                        return p
                    for val, b in forks[1:]:
                        q = copy.deepcopy(p)
                        q.conds.append((v if isinstance(v, SymExpr) else self._discr_descr(fr, t), val, fr.f["key"], fr.bb))
                        q.frames[-1].bb, q.frames[-1].si = b, 0
                        work.append(q)
                    val, b = forks[0]
                    p.conds.append((v if isinstance(v, SymExpr) else self._discr_descr(fr, t), val, fr.f["key"], fr.bb))
                    fr.bb, fr.si = b, 0
            elif k == "call":
                self._work = work
                self._cur_path = p
                r = self._call(p, fr, t)
                if r == "pushed":
                    continue
                if r == "diverge":
                    p.result = Unknown("diverge:%s" % t.get("callee_name"))
                    p.diverged = t
                    return p
            elif k == "unreachable":
                p.result = Unknown("unreachable")
                return p
            else:
                p.result = Unknown("term " + k)
                return p

    def canon_path(self, path):
        """the current path of an ADT that a rule names by the path it had on the pinned tree: when the type was moved to another
        module of its crate, the one ADT of that crate with the same name stands for it"""
        if path is None or path in self.fx.adts or "::" not in path:
            return path
        cache = getattr(self.fx, "_canon_adt", None)
        if cache is None:
            cache = self.fx._canon_adt = {}
        if path not in cache:
            crate, last = path.split("::")[0], path.split("::")[-1]
            cands = [a for a in self.fx.adts if a.split("::")[0] == crate and a.split("::")[-1] == last]
            cache[path] = cands[0] if len(cands) == 1 else path
        return cache[path]

    def canon_value(self, v, depth=0):
        """values handed in by a rule (arguments, hook results) with ADT paths canonicalised (see canon_path)"""
        if depth > 40:
            return v
        if isinstance(v, Adt):
            if v.path and v.path not in self.fx.adts and v.path.split("::")[0] in self.fx.crates:
                v.path = self.canon_path(v.path)
            d = self.fx.adts.get(v.path) if v.path else None
            if d and d.get("variants") and v.path.split("::")[0] in self.fx.crates:
                # a value a rule built the way the type was declared on the pinned tree: a single-variant enum that became a struct (or
                # the reverse) and positional fields that were given names (or the reverse) keep their positions
                names = [x["name"] for x in d["variants"]]
                if v.variant not in names and len(names) == 1:
                    v.variant = names[0]
                vd = next((x for x in d["variants"] if x["name"] == v.variant), None)
                if vd is not None and v.fields:
                    want = [f_["name"] for f_ in vd["fields"]]
                    have = list(v.fields)
                    if set(have) != set(want) and len(have) == len(want) and (all(k.isdigit() for k in have) or all(k.isdigit() for k in want)):
                        if all(k.isdigit() for k in have):
                            have = sorted(have, key=int)
                        v.fields = {w: v.fields[h] for w, h in zip(want, have)}
                    elif set(have) != set(want) and len(have) == len(want) and \
                            all(h == w or (h not in want and w not in have) for h, w in zip(have, want)):
                        # fields that were renamed in place (the rule lists them in declaration order): the names both sides know sit
                        # at the same positions, the others are taken by position
                        v.fields = {w: v.fields[h] for w, h in zip(want, have)}
            for k in list(v.fields):
                v.fields[k] = self.canon_value(v.fields[k], depth + 1)
        elif isinstance(v, Vec):
            v.items[:] = [self.canon_value(x, depth + 1) for x in v.items]
        elif isinstance(v, Ref) and depth < 3:
            try:
                self.canon_value(self.deref(v), depth + 1)      # what a rule hands in by reference (a state object) is canonicalised in place
            except Exception:       # noqa: BLE001 - a reference the rule built loosely: leave it
                pass
        elif isinstance(v, Sym) and v.adt and v.adt not in self.fx.adts and v.adt.split("::")[0] in self.fx.crates:
            v.adt = self.canon_path(v.adt)
        return v

    def _discr_descr(self, fr, t):
        return "switch@%s:bb%d" % (fr.f["key"].split("::")[-1], fr.bb)

    def _call(self, p, fr, t):
        args = [self.operand(fr, a) for a in t["args"]]
        # hooks
        for h in self.hooks:
            r = h(self, p, fr, t, args)
            if r is not NotImplemented:
                return self._finish_call(fr, t, self.canon_value(r) if isinstance(r, (Adt, Vec, Sym)) else r)
        key = None
        if t.get("callee_name") == "into" and t.get("callee_trait") == "core::convert::Into":
            # blanket Into: dispatch to the workspace `From` impl of the destination type
            dl = fr.f["locals"][t["dest"]["l"]]
            dadt = dl.get("adt")
            if dadt and dadt.split("::")[0] in self.fx.crates:
                src = self.deref(args[0])
                # the static type of the argument decides between impls that differ only in type arguments (`From<Term<Prd>>` / `From<Term<Cns>>`)
                a0 = t["args"][0]
                aty = fr.f["locals"][a0["pl"]["l"]]["ty"] if a0.get("k") in ("copy", "move") and not a0["pl"]["p"] else None

                def _short(ty_):
                    return re.sub(r"[A-Za-z_0-9]+::", "", ty_ or "").replace(" ", "")
                cands = []
                for imp in self.fx.impls:
                    if imp.get("trait") == "core::convert::From" and imp.get("self_adt") == dadt:
                        for m in imp["methods"]:
                            if m["name"] == "from" and m["key"] in self.fx.fns:
                                pty = self.fx.fns[m["key"]]["locals"][1]["ty"]
                                if _value_matches_type(src, pty):
                                    cands.append((m["key"], pty))
                exact = [k_ for k_, pty in cands if aty and _short(pty) == _short(aty)]
                if exact:
                    key = exact[0]
                elif cands:
                    key = cands[-1][0]
        if key is None and t.get("callee_name") == "collect" and args and isinstance(self.deref(args[0]), Iter) and self.deref(args[0]).items is not None:
            # collect() into a workspace type: its own FromIterator impl does the work
            dl = fr.f["locals"][t["dest"]["l"]]
            dadt = dl.get("adt")
            if dadt and dadt.split("::")[0] in self.fx.crates:
                for imp in self.fx.impls:
                    if imp.get("trait") == "core::iter::traits::collect::FromIterator" and imp.get("self_adt") == dadt:
                        for m in imp["methods"]:
                            if m["name"] == "from_iter" and m["key"] in self.fx.fns:
                                key = m["key"]
        if key is None:
            r = std_model(self, p, fr, t, args)
            if r is not NotImplemented:
                return self._finish_call(fr, t, r)
            key = t.get("resolved_key") or (t.get("callee_key") if not t.get("callee_trait") else None)
        self_adt = None
        if key is None and t.get("callee_trait") and t.get("callee_self") in self.type_env:
            # a trait method called on a generic parameter (`Backend::store(..)`) of a function being folded at a known instance
            inst = self.type_env[t["callee_self"]]
            for imp in self.fx.impls:
                if imp.get("trait") == t["callee_trait"] and imp.get("self_adt") == inst:
                    for m in imp["methods"]:
                        if m["name"] == t.get("callee_name") and m["key"] in self.fx.fns:
                            key = m["key"]
            if key is None and t.get("callee_key") in self.fx.fns:
                key = t["callee_key"]
                self_adt = inst
        if key is None and t.get("callee_trait") and not t.get("resolved_key") and args and \
                re.fullmatch(r"&?(mut )?[A-Z][A-Za-z0-9]*", t.get("callee_self") or "") and (t.get("callee_self") or "").lstrip("&mut ") not in ("Self",):
            # a trait method called on a generic parameter (`T::shrink(x)` inside `impl<T: Tr> Tr for Vec<T>`): dispatch on the
            # receiver *value* when it is a concrete ADT / vector with exactly one workspace impl of the trait
            v0 = self.deref(args[0])
            want = v0.path if isinstance(v0, Adt) and v0.path else ("alloc::vec::Vec" if isinstance(v0, Vec) else None)
            if want:
                cands = []
                for imp in self.fx.impls:
                    if imp.get("trait") == t["callee_trait"] and imp.get("self_adt") == want:
                        for m in imp["methods"]:
                            if m["name"] == t.get("callee_name") and m["key"] in self.fx.fns:
                                cands.append(m["key"])
                if len(set(cands)) == 1:
                    key = cands[0]
        if key is None and t.get("callee_trait") and t.get("callee_self") == "Self" and getattr(fr, "self_adt", None):
            # inside a provided (default) trait method instantiated at a known Self: dispatch `Self::m` to that impl,
            # or to the trait's own provided method when the impl does not override it
            for imp in self.fx.impls:
                if imp.get("trait") == t["callee_trait"] and imp.get("self_adt") == fr.self_adt:
                    for m in imp["methods"]:
                        if m["name"] == t.get("callee_name") and m["key"] in self.fx.fns:
                            key = m["key"]
            if key is None and t.get("callee_key") in self.fx.fns:
                key = t["callee_key"]
                self_adt = fr.self_adt
        if key is not None and t.get("callee_trait") and key == t.get("callee_key") and t.get("callee_self_adt"):
            # resolved to the trait's provided method: remember the Self type for the calls inside it
            self_adt = t["callee_self_adt"]
        fv = None
        if key is None and t["func"].get("k") in ("copy", "move"):
            fv = self.operand(fr, t["func"])
        if key is None and isinstance(fv, FnVal) and not fv.closure and "::" in fv.path:
            # the constructor function of a tuple variant / tuple struct used as a value (`Code::ADD as fn(..) -> Code`)
            owner, last = fv.path.replace("::{constructor#0}", "").rsplit("::", 1)
            A = self.fx.adts.get(owner)
            if A is not None and any(v_["name"] == last for v_ in A["variants"]):
                vdef = [v_ for v_ in A["variants"] if v_["name"] == last][0]
                if len(vdef["fields"]) == len(args):
                    return self._finish_call(fr, t, Adt(owner, last, {f_["name"]: a_ for f_, a_ in zip(vdef["fields"], args)}))
        if key is None and isinstance(fv, FnVal) and fv.targs and fv.targs[0] in self.type_env and "::" in fv.path:
            # a trait method of a generic parameter taken as a value (`let op = Backend::add; op(..)`), at a known instance
            trait_, mname = fv.path.rsplit("::", 1)
            inst = self.type_env[fv.targs[0]]
            for imp in self.fx.impls:
                if imp.get("trait") == trait_ and imp.get("self_adt") == inst:
                    for m in imp["methods"]:
                        if m["name"] == mname and m["key"] in self.fx.fns:
                            key = m["key"]
            if key is None and fv.path in self.fx.fns:
                key = fv.path
                self_adt = inst
        if key is None and isinstance(fv, FnVal):
            cands = self.fx.by_path.get(fv.path) or []
            cands = [c for c in cands if "{promoted" not in c["key"]]
            if cands:
                key = cands[0]["key"]
                if fv.closure and fv.captures is not None:
                    pass
        callee = self.fx.fns.get(key) if key else None
        depth = getattr(fr, "depth", 0)
        if callee is not None and depth < self.max_depth and (self.inline is None or self.inline(key)):
            nf = Frame(callee, args)
            nf.depth = depth + 1
            nf.self_adt = self_adt
            nf.dest = t["dest"]
            nf.ret_to = t["target"]
            p.frames.append(nf)
            return "pushed"
        # a call the interpreter cannot follow may write through every `&mut` it receives: what those references point at is
        # no longer known (fail closed: a stale value would silently be taken for the current one)
        for a_op, a_val in zip(t["args"], args):
            if isinstance(a_val, Ref) and a_op.get("k") in ("copy", "move"):
                aty = fr.f["locals"][a_op["pl"]["l"]]["ty"] if not a_op["pl"]["p"] else ""
                if aty.startswith("&mut "):
                    try:
                        self.write_ref(self._cell_of(a_val), Unknown("written by %s, which the interpreter cannot follow" % (t.get("callee_name") or "?")))
                    except Exception:       # noqa: BLE001
                        pass
        if os.environ.get("VERIF_TRACE_UNKNOWN"):
            import sys
            print("UNKNOWN-CALL %s in %s bb%d line %s: callee=%s resolved=%s self=%s args=%s" % (
                t.get("callee_name"), fr.f["key"], fr.bb, t["sp"].get("line"), t.get("callee"), t.get("resolved_key"), t.get("callee_self"),
                [type(self.deref(a)).__name__ + ":" + repr(self.deref(a))[:60] for a in args]), file=sys.stderr)
        return self._finish_call(fr, t, Sym("ret:%s@%s:bb%d" % (t.get("callee_name") or "?", fr.f["key"].split("::")[-1], fr.bb)))

    def call_value(self, fv, args, depth):
        """apply a function item / closure value to arguments by a nested, single-path interpretation"""
        if not isinstance(fv, FnVal):
            return Unknown("call of non-function")
        cands = [c for c in (self.fx.by_path.get(fv.path) or []) if "{promoted" not in c["key"]]
        if not cands and not fv.closure and "::" in fv.path:
            # the constructor function of a tuple variant / tuple struct (`.map(Code::PUSH)`)
            owner, last = fv.path.replace("::{constructor#0}", "").rsplit("::", 1)
            A = self.fx.adts.get(owner)
            if A is not None:
                vdef = [v_ for v_ in A["variants"] if v_["name"] == last]
                if vdef and len(vdef[0]["fields"]) == len(args):
                    return Adt(owner, last, {f_["name"]: a_ for f_, a_ in zip(vdef[0]["fields"], args)})
        if not cands or depth >= self.max_depth + 6:
            return Unknown("closure body missing")
        body = cands[0]
        a = list(args)
        if fv.closure:
            env = Adt(None, None, {str(i): c for i, c in enumerate(fv.captures or [])})
            a = [env] + a
        sub = Interp(self.fx, hooks=self.hooks, max_depth=self.max_depth, max_paths=64, max_steps=self.max_steps, inline=self.inline, type_env=self.type_env)
        f0 = Frame(body, a)
        f0.depth = depth + 1
        p = Path()
        p.frames.append(f0)
        done = []
        work = [p]
        while work:
            q = work.pop()
            r = sub._run_path(q, work, 0)
            if r is not None:
                done.append(r)
            if len(done) + len(work) > 64:
                return Unknown("closure forks")
        done = [d for d in done if not getattr(d, "diverged", None)]
        if len(done) == 1:
            return done[0].result
        return Unknown("closure paths=%d" % len(done))

    def _finish_call(self, fr, t, r):
        if r == "diverge":
            return "diverge"
        if isinstance(r, Fork):
            # the model cannot decide between several results: one path per alternative
            p = getattr(self, "_cur_path", None)
            work = getattr(self, "_work", None)
            if p is None or work is None or p.frames[-1] is not fr or not r.alts:
                r = Unknown("fork outside a path")
            else:
                for why, alt in r.alts[1:]:
                    q = copy.deepcopy(p)
                    q.conds.append((why, "alt", fr.f["key"], fr.bb))
                    qfr = q.frames[-1]
                    self.write_place(qfr, t["dest"], copy.deepcopy(alt))
                    if t["target"] is not None:
                        qfr.bb, qfr.si = t["target"], 0
                        work.append(q)
                p.conds.append((r.alts[0][0], "alt", fr.f["key"], fr.bb))
                r = r.alts[0][1]
        self.write_place(fr, t["dest"], r)
        if t["target"] is None:
            return "diverge"
        fr.bb, fr.si = t["target"], 0
        return "done"


def _value_matches_type(v, ty):
    if isinstance(v, bool):
        return ty == "bool"
    if isinstance(v, int):
        return ty in ("i8", "i16", "i32", "i64", "i128", "isize", "u8", "u16", "u32", "u64", "u128", "usize")
    if isinstance(v, Adt) and v.path:
        return ty.split("<")[0].split("::")[-1] == v.path.split("::")[-1]
    if isinstance(v, (str, StrCat)):
        return "str" in ty.lower()
    return True


def _wrap_int(v, ty):
    bits = {"i8": 8, "i16": 16, "i32": 32, "i64": 64, "i128": 128, "isize": 64, "u8": 8, "u16": 16, "u32": 32, "u64": 64, "u128": 128, "usize": 64}.get(ty)
    if not bits:
        return v
    v &= (1 << bits) - 1
    if ty.startswith("i") and v >= 1 << (bits - 1):
        v -= 1 << bits
    return v


def _binop(op, a, b):
    base = op.replace("Unchecked", "").replace("WithOverflow", "")
    if isinstance(a, bool) and isinstance(b, bool):
        if base == "Eq":
            return a == b
        if base == "Ne":
            return a != b
        if base == "BitAnd":
            return a and b
        if base == "BitOr":
            return a or b
        if base == "BitXor":
            return a != b
    if isinstance(a, int) and isinstance(b, int) and not isinstance(a, bool) and not isinstance(b, bool):
        try:
            r = {"Add": lambda: a + b, "Sub": lambda: a - b, "Mul": lambda: a * b,
                 "Div": lambda: (abs(a) // abs(b)) * (1 if (a >= 0) == (b >= 0) else -1), "Rem": lambda: abs(a) % abs(b) * (1 if a >= 0 else -1),
                 "BitAnd": lambda: a & b, "BitOr": lambda: a | b, "BitXor": lambda: a ^ b, "Shl": lambda: a << b, "Shr": lambda: a >> b,
                 "Eq": lambda: a == b, "Ne": lambda: a != b, "Lt": lambda: a < b, "Le": lambda: a <= b, "Gt": lambda: a > b, "Ge": lambda: a >= b}[base]()
        except (KeyError, ZeroDivisionError):
            return Unknown("binop " + op)
        if op.endswith("WithOverflow"):
            return Adt(None, None, {"0": r, "1": False})
        return r
    if base in ("Eq", "Ne") and isinstance(a, (Sym, Adt, str)) and isinstance(b, (Sym, Adt, str)) and type(a) == type(b):
        if isinstance(a, Sym):
            return (a == b) if base == "Eq" and a == b else Unknown("symcmp")
        return (a == b) if base == "Eq" else (a != b)
    if base in ("Eq", "Ne", "Lt", "Le", "Gt", "Ge", "Add", "Sub", "Mul") and (isinstance(a, (Sym, SymExpr)) or isinstance(b, (Sym, SymExpr))) \
            and isinstance(a, (Sym, SymExpr, int)) and isinstance(b, (Sym, SymExpr, int)):
        return SymExpr(base, a, b)
    return Unknown("binop %s %r %r" % (op, a, b))


def parse_repr(s, ty, fx, crate=None):
    """parse rustc's rendering of an evaluated constant, e.g. `config::Register(4_usize)`, `config::Register::X(2_usize)`,
    `config::Immediate {{ val: 0_i64 }}`, arrays `[.., ..]`, tuples `(.., ..)` and function items coerced to pointers
    `{code::Code::ADD as fn(..) -> code::Code}`"""
    import re
    s = s.replace("{{", "{").replace("}}", "}").strip()
    s = re.sub(r"^const ", "", s)

    def split(inner):
        parts, cur, lvl = [], "", 0
        for i, ch in enumerate(inner):
            if ch in "({[":
                lvl += 1
            elif ch in ")}]":
                lvl -= 1
            elif ch == "<":
                lvl += 1
            elif ch == ">" and not cur.endswith("-"):
                lvl -= 1
            if ch == "," and lvl == 0:
                parts.append(cur)
                cur = ""
            else:
                cur += ch
        if cur.strip():
            parts.append(cur)
        return [p_.strip() for p_ in parts]

    def elem_ty(t):
        t = t.strip()
        m_ = re.fullmatch(r"\[(.*);\s*\d+\]", t) or re.fullmatch(r"&?\[(.*)\]", t)
        return m_.group(1).strip() if m_ else t

    def adt_of(path, tyhint):
        # the type named by the value's own path (`config::Register::X` -> Register), else the declared type
        segs = path.split("::")
        for cut in (len(segs), len(segs) - 1):
            cand = "::".join(segs[:cut])
            for a in fx.adts:
                if crate and a == crate + "::" + cand or a == cand or a.endswith("::" + cand) and a.split("::")[0] == (crate or a.split("::")[0]):
                    A = fx.adts[a]
                    if cut == len(segs):
                        if A["kind"] != "enum":
                            return a, A["variants"][0]["name"]
                    elif any(v_["name"] == segs[-1] for v_ in A["variants"]):
                        return a, segs[-1]
        return _resolve_adt(path, tyhint, fx, crate)

    def val(tok, tyhint):
        tok = tok.strip()
        m_ = re.fullmatch(r"(-?\d+)_?[iu](?:\d+|size)", tok)
        if m_:
            return int(m_.group(1))
        if tok in ("true", "false"):
            return tok == "true"
        if tok.startswith("[") and tok.endswith("]"):
            return Vec([val(x, elem_ty(tyhint)) for x in split(tok[1:-1])])
        if tok.startswith("(") and tok.endswith(")"):
            tys = split(tyhint.strip()[1:-1]) if tyhint.strip().startswith("(") else []
            xs = split(tok[1:-1])
            return Adt(None, None, {str(i): val(x, tys[i] if i < len(tys) else "") for i, x in enumerate(xs)})
        mf = re.fullmatch(r"\{\s*([A-Za-z0-9_:]+)\s+as\s+fn\(.*\}", tok)
        if mf:
            fp = mf.group(1)
            if crate and fp.split("::")[0] not in fx.crates:
                fp = crate + "::" + fp
            return FnVal(fp)
        m_ = re.fullmatch(r"([A-Za-z0-9_:]+)\s*\((.*)\)", tok)
        if m_:
            adt, variant = adt_of(m_.group(1), tyhint)
            ftys = []
            if adt in fx.adts:
                ftys = [f_["ty"] for v_ in fx.adts[adt]["variants"] if v_["name"] == variant for f_ in v_["fields"]]
            xs = split(m_.group(2))
            return Adt(adt, variant, {str(i): val(x, ftys[i] if i < len(ftys) else "") for i, x in enumerate(xs)})
        m_ = re.fullmatch(r"([A-Za-z0-9_:]+)\s*\{(.*)\}", tok)
        if m_:
            adt, variant = adt_of(m_.group(1), tyhint)
            fields = {}
            for part in split(m_.group(2)):
                if ":" in part:
                    n_, v_ = part.split(":", 1)
                    fields[n_.strip()] = val(v_, "")
            return Adt(adt, variant, fields)
        if re.fullmatch(r"[A-Za-z0-9_:]+", tok):
            adt, variant = adt_of(tok, tyhint)
            if adt:
                return Adt(adt, variant, {})
        return Unknown("repr " + tok[:40])
    return val(s, ty)


def _resolve_adt(path, ty, fx, crate=None):
    # ty is the declared type string (visible path); find the ADT whose path ends with the type's last segments
    last = path.split("::")
    cands = [a for a in fx.adts if a.split("::")[-1] == ty.split("::")[-1].split("<")[0]]
    if not cands:
        return None, None
    # prefer same crate as in ty
    best = cands[0]
    for c in cands:
        if c.split("::")[0] == (crate or ty.split("::")[0]):
            best = c
    A = fx.adts[best]
    if A["kind"] == "enum":
        return best, last[-1]
    return best, A["variants"][0]["name"]


def _concrete(v):
    """a value without unknown parts (usable as a set element / map key)"""
    if isinstance(v, bool) or isinstance(v, (int, str)):
        return True
    if isinstance(v, Adt):
        return all(_concrete(x) for x in v.fields.values())
    if isinstance(v, Vec):
        return all(_concrete(x) for x in v.items)
    return False


def std_model(I, p, fr, t, args):
    """models of the few std functions the table-building code uses"""
    c = t.get("callee") or ""
    n = t.get("callee_name") or ""
    if not c.startswith(("core::", "alloc::", "std::")):
        return NotImplemented
    sadt = t.get("callee_self_adt") or ""
    d0 = I.deref(args[0]) if args else None
    if n in ("new", "with_capacity", "default") and (sadt.endswith("vec::Vec") or c.startswith("alloc::vec::")):
        return Vec()
    if n == "new" and (sadt.endswith(("rc::Rc", "boxed::Box")) or c.startswith(("alloc::rc::", "alloc::boxed::"))):
        return args[0]
    if n in ("box_new", "write_box_via_move", "into_vec", "to_vec", "from", "into", "clone", "to_owned", "deref", "deref_mut", "as_ref",
             "as_slice", "as_mut", "borrow", "unwrap_or_clone", "into_boxed_slice", "as_mut_slice", "into_iter_vec") and args:
        if n in ("from", "into") and (t.get("resolved") or "").split("::")[0] in I.fx.crates:
            return NotImplemented
        if n == "from" and sadt.endswith(("hash::set::HashSet", "btree::set::BTreeSet")) and isinstance(d0, Vec):
            return SetVal(x for x in d0.items if isinstance(x, (int, str)))
        if n == "clone":
            return copy.deepcopy(d0) if isinstance(d0, (Vec, Adt, SetVal, MapVal)) else d0
        if n in ("deref", "deref_mut", "as_ref", "as_slice", "as_mut", "borrow", "as_mut_slice"):
            return args[0]
        return d0 if n in ("into_vec", "to_vec", "to_owned", "unwrap_or_clone") else args[0]
    if n in ("take", "replace", "insert", "get_or_insert") and sadt == "core::option::Option" and c.startswith("core::option::") and isinstance(args[0], Ref) \
            and isinstance(d0, Adt) and d0.path == "core::option::Option":
        old = d0
        if n == "take":
            I.write_ref(args[0], Adt("core::option::Option", "None", {}))
            return old
        if n == "replace" and len(args) > 1:
            I.write_ref(args[0], Adt("core::option::Option", "Some", {"0": args[1]}))
            return old
    if n == "take" and c.startswith("core::mem::") and isinstance(args[0], Ref):
        old = I.deref(args[0])
        I.write_ref(args[0], Vec() if isinstance(old, Vec) else (SetVal() if isinstance(old, SetVal) else Unknown("default")))
        return old
    SETS = ("hash::set::HashSet", "btree::set::BTreeSet")
    MAPS = ("hash::map::HashMap", "btree::map::BTreeMap")
    if n in ("new", "default", "with_capacity") and sadt.endswith(SETS):
        return SetVal()
    if n in ("new", "default", "with_capacity") and sadt.endswith(MAPS):
        return MapVal()
    if n == "from" and sadt.endswith(SETS) and isinstance(d0, Vec):
        return SetVal(x for x in d0.items if _concrete(x))
    if isinstance(d0, SetVal):
        a1 = I.deref(args[1]) if len(args) > 1 else None
        depth = getattr(fr, "depth", 0)
        if n == "contains" and _concrete(a1):
            return d0.has(a1)
        if n == "insert" and _concrete(a1):
            return d0.add(a1)
        if n == "remove" and _concrete(a1):
            return d0.discard(a1)
        if n == "len":
            return len(d0.vals)
        if n == "is_empty":
            return not d0.vals
        if n in ("iter", "into_iter"):
            return Iter(d0.ordered(I.fx))
        if n == "extend":
            src = a1
            if isinstance(src, SetVal):
                for x in src.vals.values():
                    d0.add(x)
                return Adt(None, None, {})
            if isinstance(src, Vec) and all(_concrete(x) for x in src.items):
                for x in src.items:
                    d0.add(x)
                return Adt(None, None, {})
            if isinstance(src, Iter) and src.items is not None and all(_concrete(x) for x in src.items[src.pos:]):
                for x in src.items[src.pos:]:
                    d0.add(x)
                return Adt(None, None, {})
        if n == "retain" and isinstance(args[1], FnVal):
            for x in d0.ordered(I.fx):
                r = I.call_value(args[1], [x], depth)
                if not isinstance(r, bool):
                    return Unknown("retain on unknown")
                if not r:
                    d0.discard(x)
            return Adt(None, None, {})
        if n in ("union", "difference", "intersection") and isinstance(a1, SetVal):
            if n == "union":
                return Iter(SetVal(list(d0.vals.values()) + list(a1.vals.values())).ordered(I.fx))
            if n == "difference":
                return Iter([x for x in d0.ordered(I.fx) if not a1.has(x)])
            return Iter([x for x in d0.ordered(I.fx) if a1.has(x)])
    if isinstance(d0, MapVal):
        a1 = I.deref(args[1]) if len(args) > 1 else None
        OPT = "core::option::Option"
        if n == "insert" and _concrete(a1) and len(args) > 2:
            old_v = d0.put(a1, args[2])
            return Adt(OPT, "Some", {"0": old_v}) if old_v is not None else Adt(OPT, "None", {})
        if n in ("get", "get_mut") and _concrete(a1):
            v = d0.get(a1)
            return Adt(OPT, "Some", {"0": v}) if v is not None else Adt(OPT, "None", {})
        if n in ("index", "index_mut") and _concrete(a1):
            v = d0.get(a1)
            return v if v is not None else "diverge"
        if n == "contains_key" and _concrete(a1):
            return d0.has(a1)
        if n == "entry" and _concrete(a1):
            return Adt("MAPENTRY", None, {"map": d0, "key": a1})
        if n == "remove" and _concrete(a1):
            h = _hkey(a1)
            v = d0.vals.pop(h, None)
            d0.keys_.pop(h, None)
            return Adt(OPT, "Some", {"0": v}) if v is not None else Adt(OPT, "None", {})
        if n == "len":
            return len(d0.vals)
        if n == "is_empty":
            return not d0.vals
        if n in ("keys", "into_keys"):
            return Iter([k for k, _ in d0.ordered(I.fx)])
        if n in ("values", "values_mut", "into_values"):
            return Iter([v for _, v in d0.ordered(I.fx)])
        if n in ("iter", "iter_mut", "into_iter"):
            return Iter([Adt(None, None, {"0": k, "1": v}) for k, v in d0.ordered(I.fx)])
    if isinstance(d0, Adt) and d0.path == "MAPENTRY" and n in ("or_insert_with", "or_insert", "or_default", "key"):
        m_, k_ = d0.fields["map"], d0.fields["key"]
        if n == "key":
            return k_
        if m_.has(k_):
            return m_.get(k_)
        if n == "or_insert_with" and len(args) > 1 and isinstance(args[1], FnVal):
            v_ = I.call_value(args[1], [], getattr(fr, "depth", 0))
        elif n == "or_insert" and len(args) > 1:
            v_ = I.deref(args[1])
        else:
            dty_ = fr.f["locals"][t["dest"]["l"]]["ty"] if t.get("dest") else ""
            v_ = Vec() if "Vec<" in dty_ else (0 if dty_.endswith(("usize", "i64", "u64", "i32", "u32")) else Unknown("or_default"))
        m_.put(k_, v_)
        return v_
    if n in ("split_at", "split_at_mut") and isinstance(d0, Vec) and len(args) > 1 and isinstance(I.deref(args[1]), int) and c.startswith("core::slice::"):
        k_ = I.deref(args[1])
        if k_ > len(d0.items):
            return "diverge"
        return Adt(None, None, {"0": Vec(d0.items[:k_]), "1": Vec(d0.items[k_:])})
    if n in ("chunks", "rchunks", "chunks_exact", "rchunks_exact", "windows") and isinstance(d0, Vec) and len(args) > 1 and isinstance(I.deref(args[1]), int) \
            and not isinstance(I.deref(args[1]), bool) and c.startswith("core::slice::"):
        k_ = I.deref(args[1])
        if k_ <= 0:
            return "diverge"
        xs = d0.items
        if n == "windows":
            return Iter([Vec(xs[i:i + k_]) for i in range(0, max(len(xs) - k_ + 1, 0))])
        if n.startswith("r"):
            parts = []
            j = len(xs)
            while j > 0:
                parts.append(Vec(xs[max(j - k_, 0):j]))
                j -= k_
        else:
            parts = [Vec(xs[i:i + k_]) for i in range(0, len(xs), k_)]
        if n.endswith("_exact"):
            parts = [p_ for p_ in parts if len(p_.items) == k_]
        return Iter(parts)
    if n in ("ends_with", "starts_with") and isinstance(d0, Vec) and len(args) > 1 and c.startswith("core::slice::"):
        x_ = I.deref(args[1])
        if isinstance(x_, Vec):
            k_ = len(x_.items)
            if k_ > len(d0.items):
                return False
            part = d0.items[len(d0.items) - k_:] if n == "ends_with" else d0.items[:k_]
            res_ = True
            for it_, y_ in zip(part, x_.items):
                r_ = tri_eq(it_, y_, I)
                if r_ is False:
                    return False
                if r_ is None:
                    res_ = None
            return res_ if res_ is not None else Unknown("%s on unknown elements" % n)
    if n == "contains" and isinstance(d0, Vec) and len(args) > 1 and c.startswith("core::slice::"):
        x_ = I.deref(args[1])
        res_ = False
        for it_ in d0.items:
            r_ = tri_eq(it_, x_, I)
            if r_ is True:
                return True
            if r_ is None:
                res_ = None
        return res_ if res_ is not None else Unknown("contains on unknown")
    if n in ("cmp", "partial_cmp") and len(args) == 2 and all(isinstance(I.deref(a), (int, str)) and not isinstance(I.deref(a), bool) for a in args) \
            and type(I.deref(args[0])) == type(I.deref(args[1])):
        a_, b_ = I.deref(args[0]), I.deref(args[1])
        o_ = Adt("core::cmp::Ordering", "Less" if a_ < b_ else ("Greater" if a_ > b_ else "Equal"), {})
        return o_ if n == "cmp" else Adt("core::option::Option", "Some", {"0": o_})
    if n in ("sort_by_key", "sort_by_cached_key", "sort_unstable_by_key") and isinstance(d0, Vec) and len(args) > 1 and isinstance(args[1], FnVal) and c.startswith("alloc::slice::"):
        keys_ = []
        for it_ in d0.items:
            k_ = I.deref(I.call_value(args[1], [it_], getattr(fr, "depth", 0)))
            if isinstance(k_, Adt) and k_.path == "core::option::Option":
                k_ = (0,) if k_.variant == "None" else (1, I.deref(k_.fields["0"]))
            if isinstance(k_, tuple):
                if not all(isinstance(x_, (int, str)) for x_ in k_):
                    return Unknown("sort key unknown")
            elif not isinstance(k_, (int, str)) or isinstance(k_, bool):
                return Unknown("sort key unknown")
            keys_.append(k_)
        if len({type(k_) for k_ in keys_}) > 1:
            return Unknown("sort keys of several kinds")
        order_ = sorted(range(len(keys_)), key=lambda i_: keys_[i_])
        d0.items[:] = [d0.items[i_] for i_ in order_]
        return Adt(None, None, {})
    if n in ("sort", "sort_unstable") and isinstance(d0, Vec) and c.startswith("alloc::slice::") and all(isinstance(x_, (int, str)) and not isinstance(x_, bool) for x_ in d0.items) \
            and len({type(x_) for x_ in d0.items}) <= 1:
        d0.items.sort()
        return Adt(None, None, {})
    if n == "retain" and isinstance(d0, Vec) and len(args) > 1 and c.startswith("alloc::vec") and isinstance(I.deref(args[1]), FnVal):
        keep = []
        for it_ in d0.items:
            holder_ = Frame({"locals": [{"ty": "elem"}], "blocks": [], "key": "<retain>"}, [])
            holder_.locals = [it_]
            r_ = I.deref(I.call_value(I.deref(args[1]), [Ref(holder_, 0, [])], getattr(fr, "depth", 0)))
            if r_ is True:
                keep.append(it_)
            elif r_ is not False:
                keep = None
                break
        if keep is not None:
            d0.items[:] = keep
            return Adt(None, None, {})
    if n == "truncate" and isinstance(d0, Vec) and len(args) > 1 and isinstance(I.deref(args[1]), int) and c.startswith("alloc::vec"):
        del d0.items[I.deref(args[1]):]
        return Adt(None, None, {})
    if n in ("split_last", "split_first") and isinstance(d0, Vec) and c.startswith("core::slice::"):
        if not d0.items:
            return Adt("core::option::Option", "None", {})
        if n == "split_last":
            return Adt("core::option::Option", "Some", {"0": Adt(None, None, {"0": d0.items[-1], "1": Vec(d0.items[:-1])})})
        return Adt("core::option::Option", "Some", {"0": Adt(None, None, {"0": d0.items[0], "1": Vec(d0.items[1:])})})
    if n == "next_multiple_of" and len(args) == 2 and all(isinstance(I.deref(a), int) and not isinstance(I.deref(a), bool) for a in args) and I.deref(args[1]) > 0:
        a_, b_ = I.deref(args[0]), I.deref(args[1])
        return ((a_ + b_ - 1) // b_) * b_
    if n in ("div_ceil",) and len(args) == 2 and all(isinstance(I.deref(a), int) and not isinstance(I.deref(a), bool) for a in args) and I.deref(args[1]) > 0:
        return -(-I.deref(args[0]) // I.deref(args[1]))
    if n in ("unsigned_abs", "abs", "wrapping_abs") and len(args) == 1:
        v_ = I.deref(args[0])
        if isinstance(v_, int) and not isinstance(v_, bool):
            return abs(v_)
        if isinstance(v_, Sym):
            return Sym("%s(%s)" % (n, v_.name))      # a value derived from the symbolic one: kept recognisable
    if n in ("saturating_sub",) and len(args) == 2 and all(isinstance(I.deref(a), int) and not isinstance(I.deref(a), bool) for a in args):
        return max(I.deref(args[0]) - I.deref(args[1]), 0)
    if n == "zip" and isinstance(d0, Adt) and d0.path == "core::ops::range::RangeFrom" and isinstance(d0.fields.get("start"), int) and len(args) > 1:
        o = I.deref(args[1])
        if isinstance(o, Vec):
            o = Iter(list(o.items))
        if isinstance(o, Iter) and o.items is not None:
            return Iter([Adt(None, None, {"0": d0.fields["start"] + i_, "1": b_}) for i_, b_ in enumerate(o.items[o.pos:])])
    if n == "chain" and isinstance(d0, Iter) and d0.items is not None and len(args) > 1 and \
            (t.get("callee_trait") == "core::iter::traits::iterator::Iterator" or c.startswith("core::iter::")):
        o = I.deref(args[1])
        if isinstance(o, Vec):
            o = Iter(list(o.items))
        if isinstance(o, Iter) and o.items is not None:
            return Iter(d0.items[d0.pos:] + o.items[o.pos:])
    if n in ("last", "first") and isinstance(d0, Vec) and c.startswith(("core::slice::", "alloc::vec::")):
        if not d0.items:
            return Adt("core::option::Option", "None", {})
        return Adt("core::option::Option", "Some", {"0": d0.items[-1] if n == "last" else d0.items[0]})
    if n == "last" and isinstance(d0, Iter) and d0.items is not None and (t.get("callee_trait") == "core::iter::traits::iterator::Iterator" or c.startswith("core::iter::")):
        rest = d0.items[d0.pos:]
        return Adt("core::option::Option", "Some", {"0": rest[-1]}) if rest else Adt("core::option::Option", "None", {})
    if n == "concat" and isinstance(d0, Vec) and c.startswith("alloc::slice::"):
        parts = [I.deref(x) for x in d0.items]
        if all(isinstance(x, Vec) for x in parts):
            return Vec([copy.deepcopy(y) if isinstance(y, (Adt, Vec)) else y for x in parts for y in x.items])
    if n == "flat_map" and isinstance(d0, Iter) and d0.items is not None and len(args) > 1 and isinstance(args[1], FnVal) and \
            (t.get("callee_trait") == "core::iter::traits::iterator::Iterator" or c.startswith("core::iter::")):
        flat = []
        okf = True
        for x in d0.items[d0.pos:]:
            r_ = I.deref(I.call_value(args[1], [x], getattr(fr, "depth", 0)))
            if isinstance(r_, Vec):
                flat.extend(r_.items)
            elif isinstance(r_, Iter) and r_.items is not None:
                flat.extend(r_.items[r_.pos:])
            elif isinstance(r_, Adt) and r_.path == "core::option::Option" and r_.variant in ("Some", "None"):
                if r_.variant == "Some":
                    flat.append(r_.fields["0"])
            else:
                okf = False
        if okf:
            return Iter(flat)
    if n == "flatten" and isinstance(d0, Iter) and d0.items is not None and (t.get("callee_trait") == "core::iter::traits::iterator::Iterator" or c.startswith("core::iter::")):
        flat = []
        okf = True
        for x in d0.items[d0.pos:]:
            x = I.deref(x)
            if isinstance(x, Vec):
                flat.extend(x.items)
            elif isinstance(x, Iter) and x.items is not None:
                flat.extend(x.items[x.pos:])
            elif isinstance(x, SetVal):
                flat.extend(x.ordered(I.fx))
            elif isinstance(x, Adt) and x.path == "core::option::Option" and x.variant in ("Some", "None"):
                if x.variant == "Some":
                    flat.append(x.fields["0"])
            else:
                okf = False
        if okf:
            return Iter(flat)
    if n in ("rotate_left", "rotate_right") and isinstance(d0, Vec) and len(args) > 1 and isinstance(I.deref(args[1]), int) and c.startswith("core::slice::"):
        k_ = I.deref(args[1])
        if k_ > len(d0.items):
            return "diverge"
        if n == "rotate_right":
            k_ = len(d0.items) - k_
        d0.items[:] = d0.items[k_:] + d0.items[:k_]
        return Adt(None, None, {})
    if n == "zip" and isinstance(d0, Iter) and d0.items is not None:
        o = I.deref(args[1])
        if isinstance(o, Vec):
            o = Iter(list(o.items))
        if isinstance(o, Iter) and o.items is not None:
            return Iter([Adt(None, None, {"0": a, "1": b}) for a, b in zip(d0.items[d0.pos:], o.items[o.pos:])])
    if n == "box_assume_init_into_vec_unsafe":
        la = getattr(fr, "last_array", None)
        return copy.copy(la) if isinstance(la, Vec) else Unknown("vec!")
    if n == "pop" and isinstance(d0, Vec):
        if d0.items:
            return Adt("core::option::Option", "Some", {"0": d0.items.pop()})
        return Adt("core::option::Option", "None", {})
    if n == "swap_remove" and isinstance(d0, Vec) and isinstance(I.deref(args[1]), int):
        i = I.deref(args[1])
        if 0 <= i < len(d0.items):
            v = d0.items[i]
            d0.items[i] = d0.items[-1]
            d0.items.pop()
            return v
        return "diverge"
    if n == "remove" and isinstance(d0, Vec) and isinstance(I.deref(args[1]), int):
        i = I.deref(args[1])
        if 0 <= i < len(d0.items):
            return d0.items.pop(i)
        return "diverge"
    if n == "split_off" and isinstance(d0, Vec) and isinstance(I.deref(args[1]), int):
        i = I.deref(args[1])
        if 0 <= i <= len(d0.items):
            tail = d0.items[i:]
            del d0.items[i:]
            return Vec(tail)
        return "diverge"
    if n in ("index", "index_mut", "get") and isinstance(d0, Vec) and isinstance(I.deref(args[1]), Adt) and \
            (I.deref(args[1]).path or "").startswith("core::ops::range::"):
        rg = I.deref(args[1])
        kind = rg.path.split("::")[-1]
        lo = I.deref(rg.fields.get("start")) if "start" in rg.fields else 0
        hi = I.deref(rg.fields.get("end")) if "end" in rg.fields else len(d0.items)
        if kind in ("RangeInclusive", "RangeToInclusive") and isinstance(hi, int):
            hi += 1
        if isinstance(lo, int) and isinstance(hi, int) and not isinstance(lo, bool) and not isinstance(hi, bool):
            if lo > hi or hi > len(d0.items):
                return "diverge" if n != "get" else Adt("core::option::Option", "None", {})
            sl = Vec(d0.items[lo:hi])
            return sl if n != "get" else Adt("core::option::Option", "Some", {"0": sl})
    if n == "extend_from_slice" and isinstance(d0, Vec) and isinstance(I.deref(args[1]), Vec):
        d0.items.extend(copy.deepcopy(x) if isinstance(x, (Adt, Vec)) else x for x in I.deref(args[1]).items)
        return Adt(None, None, {})
    if n == "index" and isinstance(d0, Vec) and isinstance(I.deref(args[1]), int):
        i = I.deref(args[1])
        if 0 <= i < len(d0.items):
            return d0.items[i]
        return "diverge"
    if n == "push" and isinstance(d0, Vec):
        d0.items.append(args[1])
        return Adt(None, None, {})
    if n == "extend" and isinstance(d0, Vec):
        src = I.deref(args[1])
        if isinstance(src, Vec):
            d0.items.extend(src.items)
        elif isinstance(src, Iter) and src.items is not None:
            d0.items.extend(src.items[src.pos:])
        else:
            d0.items.append(Unknown("extend"))
        return Adt(None, None, {})
    if n == "append" and isinstance(d0, Vec):
        src = I.deref(args[1])
        if isinstance(src, Vec):
            d0.items.extend(src.items)
            src.items = []
        return Adt(None, None, {})
    if n == "len" and isinstance(d0, Vec):
        return len(d0.items)
    if n == "len" and isinstance(d0, Sym):
        return Sym("len(%s)" % d0.name)
    if n == "is_empty" and isinstance(d0, Vec):
        return len(d0.items) == 0
    if n in ("max", "min") and len(args) == 2 and all(isinstance(I.deref(a), int) for a in args):
        return (max if n == "max" else min)(I.deref(args[0]), I.deref(args[1]))
    if n == "is_multiple_of" and isinstance(d0, int) and isinstance(I.deref(args[1]), int) and I.deref(args[1]) != 0:
        return d0 % I.deref(args[1]) == 0
    if n in ("eq", "ne") and len(args) == 2:
        r = tri_eq(I.deref(args[0]), I.deref(args[1]), I)
        if r is None:
            return Unknown("eq")
        return r if n == "eq" else (not r)
    if n == "contains" and c.startswith("core::ops::range::") and isinstance(d0, Adt) and (d0.path or "").startswith("core::ops::range::") and len(args) > 1:
        x = I.deref(args[1])
        lo, hi = I.deref(d0.fields.get("start")) if "start" in d0.fields else None, I.deref(d0.fields.get("end")) if "end" in d0.fields else None
        if isinstance(x, int) and not isinstance(x, bool) and all(v is None or (isinstance(v, int) and not isinstance(v, bool)) for v in (lo, hi)):
            incl = d0.path.endswith(("RangeInclusive", "RangeToInclusive"))
            return (lo is None or lo <= x) and (hi is None or (x <= hi if incl else x < hi))
    if n in ("then", "then_some") and c.startswith("core::bool::") and isinstance(d0, bool) and len(args) > 1:
        if not d0:
            return Adt("core::option::Option", "None", {})
        if n == "then_some":
            return Adt("core::option::Option", "Some", {"0": args[1]})
        if isinstance(args[1], FnVal):
            return Adt("core::option::Option", "Some", {"0": I.call_value(args[1], [], getattr(fr, "depth", 0))})
    # calling a closure / function value that was passed in: Fn::call(&f, (args,))
    if n in ("call", "call_mut", "call_once") and (t.get("callee_trait") or "").startswith("core::ops::function::Fn") and len(args) == 2:
        fv = d0
        tup = I.deref(args[1])
        if isinstance(fv, FnVal) and isinstance(tup, Adt) and tup.path is None:
            vals = [tup.fields[k_] for k_ in sorted(tup.fields, key=lambda x: int(x) if str(x).isdigit() else 0)]
            return I.call_value(fv, vals, getattr(fr, "depth", 0))
    # the `?` operator: Try::branch / FromResidual::from_residual on Option and Result
    if n == "branch" and t.get("callee_trait") == "core::ops::try_trait::Try" and isinstance(d0, Adt) and d0.path in ("core::option::Option", "core::result::Result") \
            and d0.variant in ("Some", "None", "Ok", "Err"):
        CF = "core::ops::control_flow::ControlFlow"
        if d0.variant in ("Some", "Ok"):
            return Adt(CF, "Continue", {"0": d0.fields.get("0")})
        return Adt(CF, "Break", {"0": Adt(d0.path, d0.variant, dict(d0.fields))})
    if n == "from_residual" and t.get("callee_trait") == "core::ops::try_trait::FromResidual" and isinstance(d0, Adt) and d0.variant in ("None", "Err"):
        dty = fr.f["locals"][t["dest"]["l"]]["ty"]
        if d0.variant == "None" and dty.startswith(("std::option::Option", "core::option::Option")):
            return Adt("core::option::Option", "None", {})
        if d0.variant == "Err" and dty.startswith(("std::result::Result", "core::result::Result")):
            e = I.deref(d0.fields.get("0"))
            ety = dty.rsplit(", ", 1)[-1].rstrip(">").strip()
            # the error is converted with From; the identity conversion when the error already has the destination's type
            if isinstance(e, Adt) and e.path and ety and (e.path.split("::")[-1] == ety.split("::")[-1].split("<")[0]):
                return Adt("core::result::Result", "Err", {"0": e})
            if isinstance(e, Sym):
                return Adt("core::result::Result", "Err", {"0": e})
    # combinators on an Option of unknown shape: both shapes, the payload named after the option
    if isinstance(d0, Sym) and sadt == "core::option::Option" and c.startswith("core::option::") and n in ("map_or_else", "map_or", "map", "is_some", "is_none", "unwrap_or_else"):
        depth = getattr(fr, "depth", 0)
        payload = d0.field("0")
        f1 = args[1] if len(args) > 1 else None
        some_v = none_v = None
        if n == "map_or_else" and isinstance(f1, FnVal) and len(args) > 2 and isinstance(args[2], FnVal):
            none_v, some_v = I.call_value(f1, [], depth), I.call_value(args[2], [payload], depth)
        elif n == "map_or" and len(args) > 2 and isinstance(args[2], FnVal):
            none_v, some_v = args[1], I.call_value(args[2], [payload], depth)
        elif n == "map" and isinstance(f1, FnVal):
            none_v, some_v = Adt("core::option::Option", "None", {}), Adt("core::option::Option", "Some", {"0": I.call_value(f1, [payload], depth)})
        elif n == "unwrap_or_else" and isinstance(f1, FnVal):
            none_v, some_v = I.call_value(f1, [], depth), payload
        elif n in ("is_some", "is_none"):
            none_v, some_v = (n == "is_none"), (n == "is_some")
        if some_v is not None or none_v is not None:
            return Fork([("%s is Some" % d0.name, some_v), ("%s is None" % d0.name, none_v)])
    # Option / Result combinators taking closures (evaluated by nested interpretation)
    if isinstance(d0, Adt) and d0.path in ("core::option::Option", "core::result::Result") and sadt in ("core::option::Option", "core::result::Result"):
        depth = getattr(fr, "depth", 0)
        OPT, RES = "core::option::Option", "core::result::Result"
        v = d0.fields.get("0")
        f1 = args[1] if len(args) > 1 else None
        if d0.path == OPT:
            some = d0.variant == "Some"
            if n == "is_some":
                return some
            if n == "is_none":
                return not some
            if n in ("is_some_and", "is_none_or") and isinstance(f1, FnVal):
                if not some:
                    return n == "is_none_or"
                r_ = I.call_value(f1, [v], depth)
                if isinstance(r_, bool):
                    return r_
            if n == "map_or_else" and isinstance(f1, FnVal) and len(args) > 2 and isinstance(args[2], FnVal):
                return I.call_value(args[2], [v], depth) if some else I.call_value(f1, [], depth)
            if n == "map_or" and len(args) > 2 and isinstance(args[2], FnVal):
                return I.call_value(args[2], [v], depth) if some else args[1]
            if n == "map" and isinstance(f1, FnVal):
                return Adt(OPT, "Some", {"0": I.call_value(f1, [v], depth)}) if some else Adt(OPT, "None", {})
            if n == "and_then" and isinstance(f1, FnVal):
                return I.call_value(f1, [v], depth) if some else Adt(OPT, "None", {})
            if n == "ok_or_else" and isinstance(f1, FnVal):
                return Adt(RES, "Ok", {"0": v}) if some else Adt(RES, "Err", {"0": I.call_value(f1, [], depth)})
            if n == "ok_or" and len(args) > 1:
                return Adt(RES, "Ok", {"0": v}) if some else Adt(RES, "Err", {"0": args[1]})
            if n == "unwrap_or_else" and isinstance(f1, FnVal):
                return v if some else I.call_value(f1, [], depth)
            if n == "unwrap_or" and len(args) > 1:
                return v if some else args[1]
            if n in ("cloned", "copied", "as_ref", "as_mut", "as_deref"):
                return d0
            if n == "filter" and isinstance(f1, FnVal):
                if not some:
                    return d0
                r = I.call_value(f1, [v], depth)
                if isinstance(r, bool):
                    return d0 if r else Adt(OPT, "None", {})
                # a predicate over symbolic data: both outcomes
                return Fork([("Option::filter keeps the value", d0), ("Option::filter drops the value", Adt(OPT, "None", {}))])
        else:
            ok = d0.variant == "Ok"
            if n == "is_ok":
                return ok
            if n == "is_err":
                return not ok
            if n == "ok":
                return Adt(OPT, "Some", {"0": v}) if ok else Adt(OPT, "None", {})
            if n == "map" and isinstance(f1, FnVal):
                return Adt(RES, "Ok", {"0": I.call_value(f1, [v], depth)}) if ok else d0
            if n == "map_err" and isinstance(f1, FnVal):
                return d0 if ok else Adt(RES, "Err", {"0": I.call_value(f1, [v], depth)})
            if n == "and_then" and isinstance(f1, FnVal):
                return I.call_value(f1, [v], depth) if ok else d0
            if n == "or_else" and isinstance(f1, FnVal):
                return d0 if ok else I.call_value(f1, [v], depth)
            if n == "unwrap_or_else" and isinstance(f1, FnVal):
                return v if ok else I.call_value(f1, [v], depth)
            if n in ("unwrap_or",) and len(args) > 1:
                return v if ok else args[1]
    if n in ("into_iter", "iter", "iter_mut"):
        if isinstance(d0, Vec):
            return Iter(list(d0.items))
        if isinstance(d0, Iter):
            return d0
        if isinstance(d0, Adt) and d0.path == "core::option::Option" and d0.variant in ("Some", "None"):
            return Iter([d0.fields["0"]] if d0.variant == "Some" else [])
        if isinstance(d0, Adt) and d0.path in ("core::ops::range::Range", "core::ops::range::RangeInclusive") or (isinstance(d0, Adt) and set(d0.fields) >= {"start", "end"}):
            s, e = d0.fields.get("start"), d0.fields.get("end")
            if isinstance(s, int) and isinstance(e, int):
                incl = d0.path.endswith("RangeInclusive") if d0.path else False
                return Iter(list(range(s, e + (1 if incl else 0))))
        return Iter(None, sym=d0)
    if n == "replace" and isinstance(d0, str) and len(args) == 3 and (c.startswith(("alloc::str", "alloc::string", "core::str")) or sadt.endswith("String") or "str" in c):
        def _s(x):
            x = I.deref(x)
            if isinstance(x, str):
                return x
            if isinstance(x, int) and not isinstance(x, bool) and 0 <= x < 0x110000:
                return chr(x)
            return None
        a, bb = _s(args[1]), _s(args[2])
        if a is not None and bb is not None:
            return d0.replace(a, bb)
    if n == "new" and (sadt == "core::ops::range::RangeInclusive" or (t.get("callee_key") or "").startswith("core::ops::range::RangeInclusive")) and len(args) == 2:
        return Adt("core::ops::range::RangeInclusive", "RangeInclusive", {"start": I.deref(args[0]), "end": I.deref(args[1]), "exhausted": False})
    if isinstance(d0, Adt) and d0.path in ("core::ops::range::Range", "core::ops::range::RangeInclusive") and \
            n in ("rev", "map", "filter", "any", "all", "position", "find", "for_each", "count", "filter_map", "enumerate", "zip", "skip", "take", "collect",
                  "step_by", "chain", "fold", "sum") and \
            (t.get("callee_trait") in ("core::iter::traits::iterator::Iterator", "core::iter::traits::double_ended::DoubleEndedIterator") or c.startswith("core::iter::")):
        # a range is its own iterator
        lo, hi = d0.fields.get("start"), d0.fields.get("end")
        if isinstance(lo, int) and isinstance(hi, int) and not isinstance(lo, bool):
            d0 = Iter(list(range(lo, hi + (1 if d0.path.endswith("RangeInclusive") else 0))))
    if n in ("skip_while", "take_while") and isinstance(d0, Iter) and d0.items is not None and len(args) > 1 and isinstance(args[1], FnVal) \
            and (t.get("callee_trait") == "core::iter::traits::iterator::Iterator" or c.startswith("core::iter::")):
        rest = d0.items[d0.pos:]
        depth = getattr(fr, "depth", 0)
        k_ = 0
        while k_ < len(rest):
            r_ = I.call_value(args[1], [rest[k_]], depth)
            if not isinstance(r_, bool):
                return Unknown("skip_while/take_while on unknown")
            if not r_:
                break
            k_ += 1
        return Iter(rest[k_:] if n == "skip_while" else rest[:k_])
    if n in ("any", "all", "map", "filter", "position", "find", "for_each", "count", "filter_map") and isinstance(d0, Iter) and d0.items is not None \
            and (t.get("callee_trait") == "core::iter::traits::iterator::Iterator" or c.startswith("core::iter::")):
        rest = d0.items[d0.pos:]
        depth = getattr(fr, "depth", 0)
        if n == "count":
            return len(rest)
        clo = args[1] if len(args) > 1 else None
        if isinstance(clo, FnVal):
            def ap(x, byref=False):
                return I.call_value(clo, [Adt(None, None, {"0": x})] if False else [x], depth)
            if n in ("any", "all"):
                res = []
                for x in rest:
                    r = ap(x)
                    if not isinstance(r, bool):
                        return Unknown("any/all on unknown")
                    res.append(r)
                d0.pos = len(d0.items)
                return any(res) if n == "any" else all(res)
            if n == "map":
                return Iter([ap(x) for x in rest])
            if n == "for_each":
                for x in rest:
                    ap(x)
                return Adt(None, None, {})
            if n in ("filter", "position", "find"):
                keep = []
                for i, x in enumerate(rest):
                    r = ap(x)
                    if not isinstance(r, bool):
                        return Unknown("filter on unknown")
                    if r:
                        if n == "position":
                            return Adt("core::option::Option", "Some", {"0": i})
                        if n == "find":
                            return Adt("core::option::Option", "Some", {"0": x})
                        keep.append(x)
                if n in ("position", "find"):
                    return Adt("core::option::Option", "None", {})
                return Iter(keep)
    if n in ("map", "filter", "cloned", "copied", "rev", "enumerate", "filter_map", "peekable") and isinstance(d0, Iter) and d0.items is None \
            and (t.get("callee_trait") == "core::iter::traits::iterator::Iterator" or c.startswith("core::iter::")):
        return Iter(None, sym=d0.sym)
    if n == "collect" and isinstance(d0, Iter) and d0.items is not None:
        dty = fr.f["locals"][t["dest"]["l"]]["ty"]
        if dty.startswith("std::vec::Vec"):
            return Vec(d0.items[d0.pos:])
        if dty.startswith(("std::collections::HashSet", "std::collections::BTreeSet")) and all(_concrete(x) for x in d0.items[d0.pos:]):
            return SetVal(d0.items[d0.pos:])
        if dty.startswith(("std::collections::HashMap", "std::collections::BTreeMap")) and \
                all(isinstance(x, Adt) and set(x.fields) >= {"0", "1"} and _concrete(x.fields["0"]) for x in d0.items[d0.pos:]):
            return MapVal((x.fields["0"], x.fields["1"]) for x in d0.items[d0.pos:])
    if n in ("cloned", "copied", "by_ref", "peekable", "fuse") and isinstance(d0, Iter) and d0.items is not None and \
            (t.get("callee_trait") == "core::iter::traits::iterator::Iterator" or c.startswith("core::iter::")):
        if n in ("cloned", "copied"):
            vals = [I.deref(x) for x in d0.items[d0.pos:]]
            return Iter([copy.deepcopy(x) if isinstance(x, (Adt, Vec)) else x for x in vals])
        return d0
    if n in ("rev",) and isinstance(d0, Iter) and d0.items is not None:
        return Iter(list(reversed(d0.items[d0.pos:])))
    if n in ("enumerate",) and isinstance(d0, Iter) and d0.items is not None:
        return Iter([Adt(None, None, {"0": i, "1": x}) for i, x in enumerate(d0.items[d0.pos:])])
    if n in ("take",) and isinstance(d0, Iter) and d0.items is not None and isinstance(args[1], int):
        return Iter(d0.items[d0.pos:d0.pos + args[1]])
    if n in ("skip",) and isinstance(d0, Iter) and d0.items is not None and isinstance(args[1], int):
        return Iter(d0.items[d0.pos + args[1]:])
    if n == "next" and isinstance(d0, Iter):
        if d0.items is not None:
            if d0.pos < len(d0.items):
                v = d0.items[d0.pos]
                d0.pos += 1
                return Adt("core::option::Option", "Some", {"0": v})
            return Adt("core::option::Option", "None", {})
        if not d0.sym_done:
            d0.sym_done = True
            p.loop_marks.append(("loop-enter", repr(d0.sym)))
            return Adt("core::option::Option", "Some", {"0": Sym("elem(%r)" % (d0.sym,))})
        p.loop_marks.append(("loop-exit", repr(d0.sym)))
        return Adt("core::option::Option", "None", {})
    if c.startswith("core::panicking::") or n in ("panic_fmt", "panic", "begin_panic"):
        return "diverge"
    if c.startswith("core::fmt::rt::") and n.startswith("new_"):
        return d0
    ck = t.get("callee_key") or c
    if ck == "core::fmt::Arguments::new" and len(args) == 2:
        tmpl = I.deref(args[0])
        av = I.deref(args[1])
        vals = [I.deref(x) for x in av.items] if isinstance(av, Vec) else []
        if isinstance(tmpl, Bytes):
            return FmtArgs(decode_template(tmpl.b, vals))
        return FmtArgs([Unknown("template")])
    if ck.startswith("core::fmt::Arguments::") and n in ("from_str", "new_const", "from_str_nonconst"):
        return FmtArgs([d0 if isinstance(d0, str) else Unknown("fmt")])
    if n in ("format", "format_inner", "must_use") and (c.startswith("alloc::fmt::") or c.startswith("core::hint::")):
        if isinstance(d0, FmtArgs):
            return strcat([p if isinstance(p, (str, StrCat, Sym)) else (str(p) if isinstance(p, int) and not isinstance(p, bool) else p) for p in d0.parts])
        return d0
    if n == "to_string" and isinstance(d0, (str, int, StrCat, Sym)):
        return str(d0) if isinstance(d0, int) else d0
    if (t.get("callee_trait") or "").startswith("core::ops::arith::") and len(args) == 2:
        a, b = I.deref(args[0]), I.deref(args[1])
        if isinstance(a, int) and isinstance(b, int) and not isinstance(a, bool):
            return _binop({"add": "Add", "sub": "Sub", "mul": "Mul", "div": "Div", "rem": "Rem"}.get(n, n), a, b)
    if n == "add" and sadt.endswith("string::String") and len(args) == 2:
        return strcat([d0, I.deref(args[1])])
    # ---- concrete strings ----
    if n in ("new", "with_capacity", "default") and sadt.endswith("string::String"):
        return ""
    if isinstance(d0, str) and (sadt.endswith(("string::String",)) or c.startswith(("core::str", "alloc::str", "alloc::string")) or sadt in ("str",)):
        if n == "len":
            return len(d0.encode("utf-8"))
        if n == "is_empty":
            return d0 == ""
        if n == "chars":
            return Iter([ord(ch) for ch in d0])
        if n in ("bytes", "into_bytes"):
            return Iter(list(d0.encode("utf-8")))
        if n == "push" and len(args) == 2 and isinstance(args[0], Ref):
            ch = I.deref(args[1])
            if isinstance(ch, int) and not isinstance(ch, bool):
                I.write_ref(args[0], d0 + chr(ch))
                return Adt(None, None, {})
        if n in ("starts_with", "ends_with", "contains") and len(args) == 2:
            a1 = I.deref(args[1])
            a1 = chr(a1) if isinstance(a1, int) and not isinstance(a1, bool) else a1
            if isinstance(a1, str):
                return {"starts_with": d0.startswith, "ends_with": d0.endswith, "contains": d0.__contains__}[n](a1)
        if n in ("trim", "trim_start", "trim_end"):
            return {"trim": d0.strip, "trim_start": d0.lstrip, "trim_end": d0.rstrip}[n]()
        if n in ("to_uppercase", "to_lowercase"):
            return d0.upper() if n == "to_uppercase" else d0.lower()
    if n in ("push_str",) and len(args) == 2 and isinstance(args[0], Ref):
        I.write_ref(args[0], strcat([d0, I.deref(args[1])]))
        return Adt(None, None, {})
    if n in ("as_str", "as_bytes", "borrow", "to_owned") and isinstance(d0, (str, StrCat)):
        return d0
    if n in ("new_inclusive",) and len(args) == 2:
        return Adt("core::ops::range::RangeInclusive", "RangeInclusive", {"start": args[0], "end": args[1]})
    if n in ("cast_signed", "cast_unsigned") and isinstance(d0, int):
        return d0
    if n in ("trailing_zeros", "leading_zeros", "count_ones") and isinstance(d0, int) and not isinstance(d0, bool):
        import re as _re
        mt = _re.search(r"[iu](8|16|32|64|128|size)", fr.f["locals"][t["args"][0]["pl"]["l"]]["ty"] if t["args"][0].get("pl") else "i64")
        bits = 64 if not mt or mt.group(1) == "size" else int(mt.group(1))
        u = d0 & ((1 << bits) - 1)
        if n == "count_ones":
            return bin(u).count("1")
        if n == "trailing_zeros":
            return bits if u == 0 else (u & -u).bit_length() - 1
        return bits - u.bit_length()
    if n in ("saturating_sub",) and isinstance(d0, int) and isinstance(args[1], int):
        return max(0, d0 - args[1])
    if n in ("div_ceil",) and isinstance(d0, int) and isinstance(args[1], int) and args[1]:
        return -(-d0 // args[1])
    if n in ("unwrap", "expect") and isinstance(d0, Adt) and d0.variant in ("Some", "Ok"):
        return d0.fields.get("0")
    if n in ("try_from", "try_into") and isinstance(d0, int):
        m = None
        import re
        m = re.search(r"\b([iu](8|16|32|64|size))\b", t.get("callee_self") or t["func"].get("fn_args") or "")
        if m:
            ty = m.group(1)
            ok = _wrap_int(d0, ty) == d0
            return Adt("core::result::Result", "Ok" if ok else "Err", {"0": d0 if ok else Unknown("err")})
    if n in ("is_ok", "is_some") and isinstance(d0, Adt):
        return d0.variant in ("Ok", "Some")
    if n in ("is_err", "is_none") and isinstance(d0, Adt):
        return d0.variant in ("Err", "None")
    return NotImplemented


def sole_int(v, name="val"):
    """the integer inside a one-field wrapper (an `Immediate { val }`): the field called `name`, or the only field when the wrapper has
    exactly one (the field may have been renamed); an integer is returned as it is"""
    if isinstance(v, Adt):
        if name in v.fields:
            return v.fields[name]
        if len(v.fields) == 1:
            return next(iter(v.fields.values()))
        return None
    return v


def tri_eq(a, b, I=None):
    """three-valued structural equality: True / False / None (unknown); references inside values (`Some(&x)`) compare by what they
    point to, as Rust's PartialEq does"""
    if I is not None:
        a, b = I.deref(a), I.deref(b)
    elif isinstance(a, Ref) or isinstance(b, Ref):
        return None
    if isinstance(a, (Unknown,)) or isinstance(b, (Unknown,)):
        return None
    if isinstance(a, Sym) or isinstance(b, Sym):
        return True if (isinstance(a, Sym) and isinstance(b, Sym) and a == b) else None
    if isinstance(a, Adt) and isinstance(b, Adt):
        if a.path != b.path or a.variant != b.variant:
            return False
        res = True
        for k in set(a.fields) | set(b.fields):
            r = tri_eq(a.fields.get(k, Unknown()), b.fields.get(k, Unknown()), I)
            if r is False:
                return False
            if r is None:
                res = None
        return res
    if isinstance(a, Vec) and isinstance(b, Vec):
        if len(a.items) != len(b.items):
            return False
        res = True
        for x, y in zip(a.items, b.items):
            r = tri_eq(x, y, I)
            if r is False:
                return False
            if r is None:
                res = None
        return res
    if type(a) == type(b) or (isinstance(a, int) and isinstance(b, int)):
        return a == b
    return None


def _has_unknown(v):
    if isinstance(v, (Unknown, Sym)):
        return True
    if isinstance(v, Adt):
        return any(_has_unknown(x) for x in v.fields.values())
    if isinstance(v, Vec):
        return any(_has_unknown(x) for x in v.items)
    return False


def run_fn(fx, key, args, hooks=None, **kw):
    I = Interp(fx, hooks=hooks, **kw)
    f = fx.fns.get(key)
    if f is None:
        raise AnalysisError("anchor function missing: %s" % key)
    return I, I.run(f, args)
