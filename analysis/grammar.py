"""Reader for lang/fun/src/parser/fun.lalrpop: terminals of the `match` block, productions with their symbols and action
text.  Line-oriented precision is not needed; the reader tracks string/regex literals and bracket depth."""
import re

from .facts import AnalysisError


class Alt:
    def __init__(self, nt, symbols, action, line):
        self.nt = nt
        self.symbols = symbols      # list of dict(name=binder or None, sym=text)
        self.action = action        # text or None
        self.line = line

    def terminals(self):
        return [s["sym"] for s in self.symbols if s["sym"].startswith(('"', 'r"'))]


class Grammar:
    def __init__(self, text):
        self.text = text
        self.terminals = []         # (literal text, is_regex, skipped)
        self.prods = {}             # name -> dict(params, ty, alts, pub, line)
        self._parse()

    # ---- lexing helpers ----
    def _skip_literal(self, i):
        t = self.text
        if t[i] == '"':
            j = i + 1
            while t[j] != '"':
                j += 2 if t[j] == "\\" else 1
            return j + 1
        if t[i] == "r" and t[i + 1] == '"':
            j = i + 2
            while t[j] != '"':
                j += 1
            return j + 1
        return None

    def _strip_comments(self):
        t = self.text
        out = []
        i = 0
        n = len(t)
        while i < n:
            if t[i] == '"' or (t[i] == "r" and i + 1 < n and t[i + 1] == '"' and (i == 0 or not (t[i - 1].isalnum() or t[i - 1] == "_"))):
                j = self._skip_literal(i)
                out.append(t[i:j])
                i = j
            elif t.startswith("//", i):
                j = t.find("\n", i)
                j = n if j < 0 else j
                out.append(" " * (j - i))
                i = j
            else:
                out.append(t[i])
                i += 1
        self.text = "".join(out)

    def _line(self, i):
        return self.text.count("\n", 0, i) + 1

    def _match_close(self, i, open_c, close_c):
        """i points at open_c; returns index of matching close_c"""
        t = self.text
        depth = 0
        while i < len(t):
            if t[i] == '"' or (t[i] == "r" and t[i + 1:i + 2] == '"' and not (t[i - 1].isalnum() or t[i - 1] == "_")):
                i = self._skip_literal(i)
                continue
            if t[i] == open_c:
                depth += 1
            elif t[i] == close_c:
                depth -= 1
                if depth == 0:
                    return i
            i += 1
        raise AnalysisError("unbalanced %s in grammar" % open_c)

    def _parse(self):
        self._strip_comments()
        t = self.text
        m = re.search(r"\bmatch\s*\{", t)
        if not m:
            raise AnalysisError("grammar: no match block")
        end = self._match_close(m.end() - 1, "{", "}")
        self._parse_match(t[m.end():end])
        i = end + 1
        prod_re = re.compile(r"(pub\s+)?([A-Z][A-Za-z0-9_]*)\s*(<[^>:=]*>)?\s*:\s*([^=]+?)\s*=(?!>)\s*", re.S)
        while True:
            m = prod_re.search(t, i)
            if not m:
                break
            name = m.group(2)
            params = [p.strip() for p in (m.group(3) or "<>")[1:-1].split(",") if p.strip()]
            ty = m.group(4).strip()
            j = m.end()
            line = self._line(m.start(2))
            if t[j] == "{":
                e = self._match_close(j, "{", "}")
                body = t[j + 1:e]
                base = j + 1
                i = e + 1
            else:
                e = self._find_top(j, ";")
                body = t[j:e]
                base = j
                i = e + 1
            alts = [Alt(name, *self._parse_alt(a, base + off), self._line(base + off)) for off, a in self._split_top(body, ",")]
            self.prods[name] = {"params": params, "ty": ty, "alts": [a for a in alts if a.symbols or a.action], "pub": bool(m.group(1)), "line": line}
        if len(self.prods) < 20:
            raise AnalysisError("grammar: only %d productions read" % len(self.prods))

    def _parse_match(self, body):
        i = 0
        for off, item in self._split_top_text(body, ","):
            item = item.strip()
            if not item:
                continue
            m = re.match(r'(r?"(?:[^"\\]|\\.)*")\s*(=>\s*\{\s*\})?', item, re.S)
            if m:
                lit = m.group(1)
                self.terminals.append({"text": lit, "regex": lit.startswith("r"), "skip": bool(m.group(2)),
                                       "value": lit[2:-1] if lit.startswith("r") else bytes(lit[1:-1], "utf-8").decode("unicode_escape")})

    def _find_top(self, i, ch):
        t = self.text
        depth = 0
        while i < len(t):
            if t[i] == '"' or (t[i] == "r" and t[i + 1:i + 2] == '"' and not (t[i - 1].isalnum() or t[i - 1] == "_")):
                i = self._skip_literal(i)
                continue
            if t[i] in "({[":
                depth += 1
            elif t[i] in ")}]":
                depth -= 1
            elif t[i] == ch and depth == 0:
                return i
            i += 1
        return len(t)

    def _split_top_text(self, body, sep):
        out = []
        depth = 0
        i = 0
        start = 0
        n = len(body)
        while i < n:
            c = body[i]
            if c == '"' or (c == "r" and body[i + 1:i + 2] == '"' and (i == 0 or not (body[i - 1].isalnum() or body[i - 1] == "_"))):
                j = i + (2 if c == "r" else 1)
                while body[j] != '"':
                    j += 2 if (body[j] == "\\" and c != "r") else 1
                i = j + 1
                continue
            if c in "({[":
                depth += 1
            elif c in ")}]":
                depth -= 1
            elif c == sep and depth == 0:
                out.append((start, body[start:i]))
                start = i + 1
            i += 1
        out.append((start, body[start:]))
        return out

    def _split_top(self, body, sep):
        return [(o, a) for o, a in self._split_top_text(body, sep) if a.strip()]

    def _parse_alt(self, text, base):
        # symbols => action
        idx = self._find_arrow(text)
        if idx is None:
            symtext, action = text, None
        else:
            symtext, action = text[:idx], text[idx + 2:].strip()
        syms = []
        i = 0
        n = len(symtext)
        while i < n:
            c = symtext[i]
            if c.isspace():
                i += 1
                continue
            if c == "<":
                # <name: Sym> or <Sym>
                depth = 0
                j = i
                while j < n:
                    if symtext[j] == '"' or (symtext[j] == "r" and symtext[j + 1:j + 2] == '"'):
                        k = j + (2 if symtext[j] == "r" else 1)
                        while symtext[k] != '"':
                            k += 1
                        j = k + 1
                        continue
                    if symtext[j] == "<":
                        depth += 1
                    elif symtext[j] == ">":
                        depth -= 1
                        if depth == 0:
                            break
                    j += 1
                inner = symtext[i + 1:j].strip()
                m = re.match(r"(mut\s+)?([a-z_][A-Za-z0-9_]*)\s*:\s*(.*)$", inner, re.S)
                if m:
                    syms.append({"name": m.group(2), "sym": m.group(3).strip()})
                else:
                    syms.append({"name": None, "sym": inner, "anon_bound": True})
                i = j + 1
            elif c == '"' or (c == "r" and symtext[i + 1:i + 2] == '"'):
                k = i + (2 if c == "r" else 1)
                while symtext[k] != '"':
                    k += 2 if (symtext[k] == "\\" and c != "r") else 1
                syms.append({"name": None, "sym": symtext[i:k + 1]})
                i = k + 1
            else:
                m = re.match(r"[A-Za-z_@][A-Za-z0-9_]*(<[^>]*>+)?[?*+]?", symtext[i:])
                if not m:
                    i += 1
                    continue
                syms.append({"name": None, "sym": m.group(0)})
                i += m.end()
        return syms, action

    def _find_arrow(self, text):
        depth = 0
        i = 0
        n = len(text)
        while i < n - 1:
            c = text[i]
            if c == '"' or (c == "r" and text[i + 1:i + 2] == '"' and (i == 0 or not (text[i - 1].isalnum() or text[i - 1] == "_"))):
                k = i + (2 if c == "r" else 1)
                while text[k] != '"':
                    k += 2 if (text[k] == "\\" and c != "r") else 1
                i = k + 1
                continue
            if c in "({[":
                depth += 1
            elif c in ")}]":
                depth -= 1
            elif c == "=" and text[i + 1] == ">" and depth == 0:
                return i
            i += 1
        return None


def load(ctx):
    def build():
        import glob
        import os
        g = Grammar(ctx.src("lang/fun/src/parser/fun.lalrpop"))
        # the Rust helpers the semantic actions may call (lang/fun/src/parser/*.rs)
        src = []
        for p in sorted(glob.glob(os.path.join(ctx.root, "lang/fun/src/parser/*.rs"))):
            with open(p, encoding="utf-8") as f:
                src.append(f.read())
        g.helper_src = "\n".join(src)
        return g
    return ctx.memo("grammar", build)
