"""Abstract interpreter for the C runtime (io.c) over clang's JSON AST: intervals + two relational facts, path splitting,
bounded loop unrolling, inlining of functions defined in the same file.

Every scalar is an interval over mathematical integers tagged with its C type.  Two relations to the designated parameter P
(the int64_t value being printed) ride along:
  aff = (k, c)      the scalar equals k*P + c            (k in {1, -1}); lets `value < 0` and the unsigned cast split P exactly
  sym = (D, Mod)    the scalar equals (M div D) mod Mod  (Mod None: no reduction), where M = |P| as an unsigned number
`x / c`, `x - (x / c) * c`, value-preserving casts and copies transfer `sym`; branch conditions on a scalar with sym (D, None)
refine the range of M, so that on every path the analysis knows which values of P take it.  A stored character `'0' + d`
with d = (M div 10^j) mod 10 is the decimal digit of weight 10^j.

Signed arithmetic that can leave its type is reported (undefined behaviour); unsigned arithmetic wraps."""
from .facts import AnalysisError
from .cfront import tyinfo, trange

MAX_UNROLL = 80
MAX_STATES = 20000


class Num:
    __slots__ = ("lo", "hi", "ty", "aff", "sym", "chr", "tag")

    def __init__(self, lo, hi, ty, aff=None, sym=None, chr=False, tag=None):
        self.lo, self.hi, self.ty, self.aff, self.sym, self.chr = lo, hi, ty, aff, sym, chr
        self.tag = tag      # ("call", function name, ordinal): the unchanged result of a call of an external function

    def __repr__(self):
        s = "[%d, %d]:%s%d" % (self.lo, self.hi, "i" if self.ty[0] else "u", self.ty[1])
        if self.sym:
            s += " =%s(M/%d)%s" % ("'0'+" if self.chr else "", self.sym[0], "" if self.sym[1] is None else "%%%d" % self.sym[1])
        return s

    def with_range(self, lo, hi):
        return Num(lo, hi, self.ty, self.aff, self.sym, self.chr, self.tag)


class Ptr:
    __slots__ = ("base", "lo", "hi")

    def __init__(self, base, lo, hi):
        self.base, self.lo, self.hi = base, lo, hi

    def __repr__(self):
        return "&%s[%d..%d]" % (self.base[1], self.lo, self.hi)


class State:
    def __init__(self):
        self.vars = {}          # (frame, name) -> Num | Ptr
        self.arrays = {}        # (frame, name) -> size
        self.mem = {}           # (base, index) -> Num
        self.P = None           # range of the designated parameter
        self.M = None           # range of |P|
        self.frame = 0
        self.nframes = 1
        self.ret = None
        self.returned = False
        self.stores = []
        self.defcond = {}       # (frame, name) of a flag -> (comparison it was defined by, names the comparison reads)

    def copy(self):
        s = State()
        s.vars = dict(self.vars)
        s.arrays = dict(self.arrays)
        s.mem = dict(self.mem)
        s.P, s.M = self.P, self.M
        s.frame, s.nframes = self.frame, self.nframes
        s.ret, s.returned = self.ret, self.returned
        s.stores = list(self.stores)
        s.defcond = dict(self.defcond)
        return s


def _strip(n):
    while n.get("kind") in ("ImplicitCastExpr", "ParenExpr", "ConstantExpr"):
        n = n["inner"][-1]
    return n


def _line(n):
    return (n.get("loc", {}) or {}).get("line") or (n.get("range", {}).get("begin", {}) or {}).get("line") or \
        (n.get("range", {}).get("begin", {}).get("expansionLoc", {}) or {}).get("line")


class Analysis:
    def __init__(self, fname, fns):
        self.fname = fname
        self.fns = fns
        self.obligations = []
        self.events = []
        self.depth = 0

    def ob(self, kind, ok, msg, node):
        self.obligations.append((kind, bool(ok), msg, _line(node)))

    # ---------- current value of a scalar given the path's knowledge of P and M ----------
    def cur(self, s, v):
        if not isinstance(v, Num):
            return v
        lo, hi = v.lo, v.hi
        if v.aff and s.P:
            k, c = v.aff
            a, b = k * s.P[0] + c, k * s.P[1] + c
            lo, hi = max(lo, min(a, b)), min(hi, max(a, b))
        if v.sym and s.M and not v.chr:
            D, Mod = v.sym
            if Mod is None:
                lo, hi = max(lo, s.M[0] // D), min(hi, s.M[1] // D)
            else:
                lo, hi = max(lo, 0), min(hi, Mod - 1)
        if lo > hi:
            return None     # infeasible
        return v.with_range(lo, hi)

    def _abs_sym(self, s, v):
        """attach sym (1, None) when the scalar is known to equal |P|"""
        if isinstance(v, Num) and v.aff and s.P and v.sym is None:
            k, c = v.aff
            if c == 0 and ((k == 1 and s.P[0] >= 0) or (k == -1 and s.P[1] <= 0)):
                return Num(v.lo, v.hi, v.ty, v.aff, (1, None))
        return v

    # ---------- refinement ----------
    def refine_num(self, s, v, lo, hi):
        """constrain scalar v to [lo, hi] on this path: push the knowledge to P / M; False if infeasible"""
        v = self.cur(s, v)
        if v is None:
            return False
        lo, hi = max(lo, v.lo), min(hi, v.hi)
        if lo > hi:
            return False
        if v.aff and s.P:
            k, c = v.aff
            a, b = (lo - c) * k, (hi - c) * k       # k is +-1
            pl, ph = max(s.P[0], min(a, b)), min(s.P[1], max(a, b))
            if pl > ph:
                return False
            s.P = (pl, ph)
            ml = 0 if pl <= 0 <= ph else min(abs(pl), abs(ph))
            mh = max(abs(pl), abs(ph))
            if s.M is not None:
                ml, mh = max(ml, s.M[0]), min(mh, s.M[1])
            if ml > mh:
                return False
            s.M = (ml, mh)
        if v.sym and not v.chr and v.sym[1] is None and s.M:
            D = v.sym[0]
            ml, mh = max(s.M[0], lo * D), min(s.M[1], hi * D + D - 1)
            if ml > mh:
                return False
            s.M = (ml, mh)
        return True

    def refine(self, cond, s, truth):
        """returns the refined state or None when the branch is infeasible"""
        c = _strip(cond)
        if c.get("kind") == "UnaryOperator" and c.get("opcode") == "!":
            return self.refine(c["inner"][0], s, not truth)
        if c.get("kind") == "DeclRefExpr":
            key = self.lookup(s, c["referencedDecl"]["name"])
            dc = s.defcond.get(key)
            if dc is not None:
                s = self.refine(dc[0], s, truth)
                if s is None:
                    return None
            v = s.vars.get(key)
            if isinstance(v, Num):
                cv = self.cur(s, v)
                if cv is None:
                    return None
                if truth:
                    if cv.lo == 0 and cv.hi == 0:
                        return None
                    if cv.lo >= 0:
                        if not self.refine_num(s, v, 1, cv.hi):
                            return None
                        s.vars[key] = v.with_range(max(v.lo, 1), v.hi)
                    elif cv.hi <= 0:
                        if not self.refine_num(s, v, cv.lo, -1):
                            return None
                        s.vars[key] = v.with_range(v.lo, min(v.hi, -1))
                else:
                    if not self.refine_num(s, v, 0, 0):
                        return None
                    s.vars[key] = v.with_range(0, 0)
            return s
        if c.get("kind") == "BinaryOperator" and c.get("opcode") in ("<", "<=", ">", ">=", "==", "!="):
            l, r = _strip(c["inner"][0]), _strip(c["inner"][1])
            op = c["opcode"]
            if r.get("kind") == "DeclRefExpr" and l.get("kind") != "DeclRefExpr":
                l, r = r, l
                op = {"<": ">", "<=": ">=", ">": "<", ">=": "<=", "==": "==", "!=": "!="}[op]
            if l.get("kind") == "DeclRefExpr":
                rv = self.const_of(r, s)
                key = self.lookup(s, l["referencedDecl"]["name"])
                v = s.vars.get(key)
                if rv is not None and isinstance(v, Num):
                    if not truth:
                        op = {"<": ">=", "<=": ">", ">": "<=", ">=": "<", "==": "!=", "!=": "=="}[op]
                    tl, th = trange(v.ty)
                    rng = {"<": (tl, rv - 1), "<=": (tl, rv), ">": (rv + 1, th), ">=": (rv, th), "==": (rv, rv)}.get(op)
                    if rng is None:
                        cv = self.cur(s, v)
                        if cv is None or (cv.lo == cv.hi == rv):
                            return None
                        if cv.lo == rv:
                            rng = (rv + 1, th)
                        elif cv.hi == rv:
                            rng = (tl, rv - 1)
                        else:
                            return s
                    if not self.refine_num(s, v, rng[0], rng[1]):
                        return None
                    s.vars[key] = v.with_range(max(v.lo, rng[0]), min(v.hi, rng[1]))
            return s
        return s

    def _refine_split(self, cond, s, truth):
        """the refined states of one branch: `x != c` (or the false branch of `x == c`) with c strictly inside the range of x is two
        intervals, so two states"""
        c = _strip(cond)
        neq = c.get("kind") == "BinaryOperator" and ((c.get("opcode") == "!=" and truth) or (c.get("opcode") == "==" and not truth))
        if neq:
            l, r = _strip(c["inner"][0]), _strip(c["inner"][1])
            if r.get("kind") == "DeclRefExpr" and l.get("kind") != "DeclRefExpr":
                l, r = r, l
            rv = self.const_of(r, s) if l.get("kind") == "DeclRefExpr" else None
            if rv is not None:
                key = self.lookup(s, l["referencedDecl"]["name"])
                v = s.vars.get(key)
                cv = self.cur(s, v) if isinstance(v, Num) else None
                if cv is not None and cv.lo < rv < cv.hi:
                    out = []
                    for lo_, hi_ in ((cv.lo, rv - 1), (rv + 1, cv.hi)):
                        s2 = s.copy()
                        if self.refine_num(s2, v, lo_, hi_):
                            s2.vars[key] = v.with_range(max(v.lo, lo_), min(v.hi, hi_))
                            out.append(s2)
                    return out
        st = self.refine(cond, s.copy(), truth)
        return [st] if st is not None else []

    def const_of(self, n, s):
        n = _strip(n)
        if n.get("kind") == "IntegerLiteral":
            return int(n["value"])
        if n.get("kind") == "CharacterLiteral":
            return n["value"]
        if n.get("kind") in ("CStyleCastExpr",):
            return self.const_of(n["inner"][-1], s)
        if n.get("kind") == "UnaryOperator" and n.get("opcode") == "-":
            c = self.const_of(n["inner"][0], s)
            return -c if c is not None else None
        if n.get("kind") == "BinaryOperator" and n.get("opcode") in ("+", "-", "*"):
            a, b = self.const_of(n["inner"][0], s), self.const_of(n["inner"][1], s)
            if a is not None and b is not None:
                return a + b if n["opcode"] == "+" else (a - b if n["opcode"] == "-" else a * b)
        return None

    def lookup(self, s, name):
        return (s.frame, name)

    # ---------- expressions ----------
    def ev(self, n, st):
        k = n["kind"]
        if k in ("ParenExpr", "ConstantExpr"):
            return self.ev(n["inner"][-1], st)
        if k in ("ImplicitCastExpr", "CStyleCastExpr"):
            ck = n.get("castKind")
            out = []
            for s, v in self.ev(n["inner"][-1], st):
                if ck == "LValueToRValue" and isinstance(v, tuple) and v[0] == "elem":
                    p = v[1]
                    cell = s.mem.get((p.base, p.lo)) if p.lo == p.hi else None
                    out.append((s, cell if cell is not None else Num(-128, 127, (True, 8))))
                elif ck in ("IntegralCast", "IntegralToBoolean") and isinstance(v, Num):
                    out.extend(self.cast(s, v, tyinfo(n["type"]["qualType"]), n))
                else:
                    out.append((s, v))
            return out
        if k == "IntegerLiteral":
            v = int(n["value"])
            return [(st, Num(v, v, tyinfo(n["type"]["qualType"]) or (True, 32)))]
        if k == "CharacterLiteral":
            return [(st, Num(n["value"], n["value"], (True, 32)))]
        if k == "StringLiteral":
            return [(st, ("opaque", "string"))]        # only handed on to external functions
        if k == "UnaryExprOrTypeTraitExpr":
            t_ = tyinfo(n["type"]["qualType"]) or (False, 64)
            return [(st, Num(0, (1 << 31) - 1, t_))]     # sizeof / alignof: some non-negative size
        if k == "CXXBoolLiteralExpr":
            b = 1 if n.get("value") else 0
            return [(st, Num(b, b, (False, 1)))]
        if k == "DeclRefExpr":
            name = n["referencedDecl"]["name"]
            key = self.lookup(st, name)
            if key in st.arrays:
                return [(st, Ptr(key, 0, 0))]
            if key in st.vars:
                v = st.vars[key]
                cv = self.cur(st, v)
                if cv is None:
                    return []
                return [(st, cv)]
            if n["referencedDecl"].get("kind") == "FunctionDecl":
                return [(st, ("fn", name))]
            if name.startswith("STD") or n["referencedDecl"].get("kind") == "EnumConstantDecl":
                return [(st, Num(1, 1, (True, 32)))]
            raise AnalysisError("cabs: unknown identifier %s in %s" % (name, self.fname))
        if k == "ArraySubscriptExpr":
            out = []
            for s, b in self.ev(n["inner"][0], st):
                for s2, i in self.ev(n["inner"][1], s):
                    if not isinstance(b, Ptr) or not isinstance(i, Num):
                        raise AnalysisError("cabs: subscript of a non-array in %s" % self.fname)
                    out.append((s2, ("elem", Ptr(b.base, b.lo + i.lo, b.hi + i.hi))))
            return out
        if k == "UnaryOperator":
            return self.unary(n, st)
        if k == "BinaryOperator":
            op = n["opcode"]
            if op == "=":
                return self.assign(n["inner"][0], n["inner"][1], st, n)
            if op in ("&&", "||"):
                out = []
                for s, a in self.ev(n["inner"][0], st):
                    a_t, a_f = (a.hi >= 1 or a.lo < 0), (a.lo <= 0 <= a.hi)
                    if op == "&&":
                        if a_f:
                            sf = self.refine(n["inner"][0], s.copy(), False)
                            if sf is not None:
                                out.append((sf, Num(0, 0, (True, 32))))
                        if a_t:
                            stt = self.refine(n["inner"][0], s.copy(), True)
                            if stt is not None:
                                for s2, b in self.ev(n["inner"][1], stt):
                                    out.append((s2, Num(1 if not (b.lo <= 0 <= b.hi) else 0, 1 if (b.hi >= 1 or b.lo < 0) else 0, (True, 32))))
                    else:
                        if a_t:
                            stt = self.refine(n["inner"][0], s.copy(), True)
                            if stt is not None:
                                out.append((stt, Num(1, 1, (True, 32))))
                        if a_f:
                            sf = self.refine(n["inner"][0], s.copy(), False)
                            if sf is not None:
                                for s2, b in self.ev(n["inner"][1], sf):
                                    out.append((s2, Num(1 if not (b.lo <= 0 <= b.hi) else 0, 1 if (b.hi >= 1 or b.lo < 0) else 0, (True, 32))))
                return out
            out = []
            for s, a in self.ev(n["inner"][0], st):
                for s2, b in self.ev(n["inner"][1], s):
                    out.extend(self.binop(op, a, b, s2, n))
            return out
        if k == "CompoundAssignOperator":
            op = n["opcode"][:-1]
            lhs = _strip(n["inner"][0])
            if lhs.get("kind") != "DeclRefExpr":
                raise AnalysisError("cabs: compound assignment to a non-variable in %s" % self.fname)
            key = self.lookup(st, lhs["referencedDecl"]["name"])
            out = []
            for s, b in self.ev(n["inner"][1], st):
                a = self.cur(s, s.vars[key])
                if a is None:
                    continue
                rt = a.ty if isinstance(a, Num) else None
                for s2, r in self.binop(op, a, b, s, n, result_ty=rt):
                    s3 = s2.copy()
                    s3.defcond = {k_: dc_ for k_, dc_ in s3.defcond.items() if k_ != key and not (k_[0] == key[0] and key[1] in dc_[1])}
                    s3.vars[key] = r
                    out.append((s3, r))
            return out
        if k == "CallExpr":
            return self.call(n, st)
        if k == "ConditionalOperator":
            out = []
            for s, c in self.ev(n["inner"][0], st):
                if c.hi >= 1 or c.lo < 0:
                    s1 = self.refine(n["inner"][0], s.copy(), True)
                    if s1 is not None:
                        out.extend(self.ev(n["inner"][1], s1))
                if c.lo <= 0 <= c.hi:
                    s2 = self.refine(n["inner"][0], s.copy(), False)
                    if s2 is not None:
                        out.extend(self.ev(n["inner"][2], s2))
            return out
        raise AnalysisError("cabs: unsupported expression %s in %s" % (k, self.fname))

    def unary(self, n, st):
        op = n["opcode"]
        if op == "&":
            return [(s, v[1] if isinstance(v, tuple) and v[0] == "elem" else v) for s, v in self.ev(n["inner"][0], st)]
        if op == "*":
            out = []
            for s, v in self.ev(n["inner"][0], st):
                if isinstance(v, Ptr):
                    out.append((s, ("elem", v)))
                else:
                    raise AnalysisError("cabs: dereference of a non-pointer in %s" % self.fname)
            return out
        if op in ("--", "++"):
            tgt = _strip(n["inner"][0])
            if tgt.get("kind") != "DeclRefExpr":
                raise AnalysisError("cabs: ++/-- on a non-variable in %s" % self.fname)
            key = self.lookup(st, tgt["referencedDecl"]["name"])
            v = st.vars[key]
            d = -1 if op == "--" else 1
            s = st.copy()
            s.defcond = {k_: dc_ for k_, dc_ in s.defcond.items() if k_ != key and not (k_[0] == key[0] and key[1] in dc_[1])}
            if isinstance(v, Ptr):
                nv = Ptr(v.base, v.lo + d, v.hi + d)
            else:
                v = self.cur(st, v)
                if v is None:
                    return []
                lo, hi = v.lo + d, v.hi + d
                tl, th = trange(v.ty)
                if v.ty[0]:
                    self.ob("signed-overflow", tl <= lo and hi <= th, "`%s` on %r can overflow" % (op, v), n)
                    nv = Num(max(lo, tl), min(hi, th), v.ty)
                else:
                    nv = Num(lo, hi, v.ty) if tl <= lo and hi <= th else Num(tl, th, v.ty)
            s.vars[key] = nv
            return [(s, v if n.get("isPostfix") else nv)]
        if op == "-":
            t = tyinfo(n["type"]["qualType"])
            out = []
            for s, v in self.ev(n["inner"][0], st):
                if t[0]:
                    lo, hi = trange(t)
                    self.ob("signed-overflow", v.lo > lo, "negation of %r can overflow (`-x` for the minimum value is undefined behaviour)" % (v,), n)
                    aff = (-v.aff[0], -v.aff[1]) if v.aff else None
                    out.append((s, self._abs_sym(s, Num(-v.hi, -max(v.lo, lo + 1), t, aff))))
                else:
                    Mx = 1 << t[1]
                    aff = None
                    if v.aff:
                        aff = (-v.aff[0], (Mx - v.aff[1]) % Mx if v.lo > 0 else -v.aff[1])
                    if v.lo == 0 and v.hi == 0:
                        out.append((s, Num(0, 0, t, (-v.aff[0], -v.aff[1]) if v.aff else None)))
                    elif v.lo == 0:
                        s0 = s.copy()
                        if self.refine_num(s0, v, 0, 0):
                            out.append((s0, Num(0, 0, t)))
                        s1 = s.copy()
                        if self.refine_num(s1, v, 1, v.hi):
                            a1 = (-v.aff[0], (Mx - v.aff[1]) % Mx) if v.aff else None
                            out.append((s1, self._abs_sym(s1, Num(Mx - v.hi, Mx - 1, t, a1))))
                    else:
                        out.append((s, self._abs_sym(s, Num(Mx - v.hi, Mx - v.lo, t, aff))))
            return out
        if op == "!":
            out = []
            for s, v in self.ev(n["inner"][0], st):
                if v.lo == 0 and v.hi == 0:
                    out.append((s, Num(1, 1, (True, 32))))
                elif v.lo > 0 or v.hi < 0:
                    out.append((s, Num(0, 0, (True, 32))))
                else:
                    out.append((s, Num(0, 1, (True, 32))))
            return out
        if op == "+":
            return self.ev(n["inner"][0], st)
        raise AnalysisError("cabs: unsupported unary operator %s in %s" % (op, self.fname))

    def cast(self, s, v, t, n):
        if t is None:
            return [(s, v)]
        lo, hi = trange(t)
        if t[1] == 1:
            if v.lo == 0 and v.hi == 0:
                return [(s, Num(0, 0, t))]
            if v.lo > 0 or v.hi < 0:
                return [(s, Num(1, 1, t))]
            return [(s, Num(0, 1, t))]
        if lo <= v.lo and v.hi <= hi:
            return [(s, self._abs_sym(s, Num(v.lo, v.hi, t, v.aff, v.sym, v.chr, v.tag)))]
        if not t[0]:
            Mx = 1 << t[1]
            out = []
            if v.hi >= 0:
                s1 = s.copy()
                if self.refine_num(s1, v, max(v.lo, 0), v.hi):
                    if v.hi <= hi:
                        out.append((s1, self._abs_sym(s1, Num(max(v.lo, 0), v.hi, t, v.aff, v.sym, v.chr))))
                    else:
                        # value may exceed the target: wraps, relation lost unless it fits
                        out.append((s1, Num(lo, hi, t)))
            if v.lo < 0:
                s2 = s.copy()
                if self.refine_num(s2, v, v.lo, min(v.hi, -1)):
                    aff = (v.aff[0], v.aff[1] + Mx) if v.aff and v.lo >= -Mx else None
                    if v.lo >= -Mx:
                        out.append((s2, Num(Mx + v.lo, Mx + min(v.hi, -1), t, aff)))
                    else:
                        out.append((s2, Num(lo, hi, t)))
            return out
        self.ob("narrowing", False, "value %r converted to a narrower signed type" % (v,), n)
        return [(s, Num(lo, hi, t))]

    def binop(self, op, a, b, s, n, result_ty=None):
        t = result_ty or tyinfo(n["type"]["qualType"]) or (True, 64)
        if isinstance(a, Ptr) and isinstance(b, Ptr) and op == "-":
            if a.base != b.base:
                raise AnalysisError("cabs: difference of pointers into different arrays in %s" % self.fname)
            return [(s, Num(a.lo - b.hi, a.hi - b.lo, (True, 64)))]
        if isinstance(a, Ptr) and isinstance(b, Num) and op in ("+", "-"):
            lo, hi = (a.lo + b.lo, a.hi + b.hi) if op == "+" else (a.lo - b.hi, a.hi - b.lo)
            return [(s, Ptr(a.base, lo, hi))]
        if isinstance(a, Ptr) and isinstance(b, Ptr) and op in ("<", "<=", ">", ">=", "==", "!="):
            a, b = Num(a.lo, a.hi, (True, 64)), Num(b.lo, b.hi, (True, 64))
        if not isinstance(a, Num) or not isinstance(b, Num):
            raise AnalysisError("cabs: unsupported operands of %s in %s" % (op, self.fname))
        if op in ("<", "<=", ">", ">=", "==", "!="):
            return [(s, self.compare(op, a, b))]
        if op in ("/", "%"):
            self.ob("division-by-zero", not (b.lo <= 0 <= b.hi), "divisor %r may be zero" % (b,), n)
            if b.lo == b.hi and b.lo > 0 and a.lo >= 0:
                c = b.lo
                if op == "/":
                    sym = None
                    if a.sym and not a.chr:
                        D, Mod = a.sym
                        if Mod is None:
                            sym = (D * c, None)
                        elif Mod % c == 0:
                            sym = (D * c, Mod // c)
                    return [(s, Num(a.lo // c, a.hi // c, t, None, sym))]
                sym = None
                if a.sym and not a.chr and (a.sym[1] is None or a.sym[1] % c == 0):
                    sym = (a.sym[0], c)
                if a.hi - a.lo >= c - 1 or (a.lo % c) > (a.hi % c):
                    return [(s, Num(0, c - 1, t, None, sym))]
                return [(s, Num(a.lo % c, a.hi % c, t, None, sym))]
            if t[0] and op == "/":
                tl, th = trange(t)
                self.ob("signed-overflow", not (a.lo <= tl and b.lo <= -1 <= b.hi), "%r / %r can overflow" % (a, b), n)
            return [(s, Num(*trange(t), t))]
        if op == "-":
            r = self.rel_mod(n, a, b, s)
            if r is not None:
                return [(s, Num(0, r[1] - 1, t, None, (r[0], r[1])))]
        if op in ("+", "-", "*"):
            if op == "+":
                lo, hi = a.lo + b.lo, a.hi + b.hi
            elif op == "-":
                lo, hi = a.lo - b.hi, a.hi - b.lo
            else:
                c = [a.lo * b.lo, a.lo * b.hi, a.hi * b.lo, a.hi * b.hi]
                lo, hi = min(c), max(c)
            tl, th = trange(t)
            sym, chr_, aff = None, False, None
            if op == "+":
                for x, y in ((a, b), (b, a)):
                    if x.lo == x.hi == 48 and y.sym and not y.chr and y.sym[1] == 10:
                        sym, chr_ = y.sym, True
                    if x.lo == x.hi and y.aff:
                        aff = (y.aff[0], y.aff[1] + x.lo)
            if op == "-" and b.lo == b.hi and a.aff:
                aff = (a.aff[0], a.aff[1] - b.lo)
            if t[0]:
                self.ob("signed-overflow", tl <= lo and hi <= th, "`%s` on %r and %r can overflow i%d" % (op, a, b, t[1]), n)
                return [(s, Num(max(lo, tl), min(hi, th), t, aff, sym, chr_))]
            if tl <= lo and hi <= th:
                return [(s, Num(lo, hi, t, aff, sym, chr_))]
            return [(s, Num(tl, th, t))]
        if op in ("<<", ">>", "&", "|", "^"):
            return [(s, Num(*trange(t), t))]
        raise AnalysisError("cabs: unsupported operator %s in %s" % (op, self.fname))

    def rel_mod(self, n, a, b, s):
        """a - q * c  with  q = a / c  (by their relations to M): the remainder a mod c, i.e. (M div D) mod c"""
        if not (a.sym and not a.chr):
            return None
        r = _strip(n["inner"][1]) if n.get("inner") and len(n["inner"]) > 1 else None
        if r is None or r.get("kind") != "BinaryOperator" or r.get("opcode") != "*":
            return None
        outs = []
        for x, y in ((r["inner"][0], r["inner"][1]), (r["inner"][1], r["inner"][0])):
            c = self.const_of(y, s)
            if c is None or c <= 1:
                continue
            qs = self.ev(x, s)
            if len(qs) != 1 or not isinstance(qs[0][1], Num):
                continue
            q = qs[0][1]
            D, Mod = a.sym
            want = (D * c, None) if Mod is None else ((D * c, Mod // c) if Mod % c == 0 else None)
            if q.sym and not q.chr and want is not None and q.sym == want:
                outs.append((D, c))
        return outs[0] if outs else None

    def compare(self, op, a, b):
        f = {"<": lambda x, y: x < y, "<=": lambda x, y: x <= y, ">": lambda x, y: x > y, ">=": lambda x, y: x >= y,
             "==": lambda x, y: x == y, "!=": lambda x, y: x != y}[op]
        corners = [f(a.lo, b.lo), f(a.lo, b.hi), f(a.hi, b.lo), f(a.hi, b.hi)]
        if op in ("==", "!="):
            overlap = not (a.hi < b.lo or b.hi < a.lo)
            single = a.lo == a.hi == b.lo == b.hi
            can_t, can_f = (overlap, not single) if op == "==" else (not single, overlap)
        else:
            can_t, can_f = any(corners), not all(corners)
        return Num(1 if not can_f else 0, 1 if can_t else 0, (True, 32))

    def store(self, s, p, v, n):
        N = s.arrays.get(p.base) if isinstance(p, Ptr) else None
        self.ob("store-in-bounds", isinstance(p, Ptr) and N is not None and 0 <= p.lo and p.hi < N,
                "store through %r must lie inside %s[%s]" % (p, getattr(p, "base", ("?", "?"))[1], N), n)
        if isinstance(v, Num):
            okc = (48 <= v.lo and v.hi <= 57) or (v.lo == v.hi and v.lo in (45, 10))
            self.ob("stored-char", okc, "character stored is %r: must be a decimal digit, '-' or newline" % (v,), n)
        s2 = s.copy()
        if isinstance(p, Ptr) and p.lo == p.hi:
            s2.mem[(p.base, p.lo)] = v
        s2.stores.append((p, v))
        return s2

    def assign(self, lhs, rhs, st, n):
        out = []
        for s, v in self.ev(rhs, st):
            tgt = _strip(lhs)
            if tgt["kind"] == "DeclRefExpr":
                key = self.lookup(s, tgt["referencedDecl"]["name"])
                s2 = s.copy()
                nm_ = tgt["referencedDecl"]["name"]
                s2.defcond = {k_: dc_ for k_, dc_ in s2.defcond.items() if k_ != key and not (k_[0] == key[0] and nm_ in dc_[1])}
                if isinstance(v, Num):
                    old = s2.vars.get(key)
                    ty = old.ty if isinstance(old, Num) else v.ty
                    tl, th = trange(ty)
                    if not (tl <= v.lo and v.hi <= th):
                        for s3, v3 in self.cast(s2, v, ty, n):
                            s4 = s3.copy()
                            s4.vars[key] = v3
                            out.append((s4, v3))
                        continue
                    v = Num(v.lo, v.hi, ty, v.aff, v.sym, v.chr, v.tag)
                s2.vars[key] = v
                out.append((s2, v))
            elif tgt["kind"] == "UnaryOperator" and tgt["opcode"] == "*":
                for s2, p in self.ev(tgt["inner"][0], s):
                    out.append((self.store(s2, p, v, n), v))
            elif tgt["kind"] == "ArraySubscriptExpr":
                for s2, e in self.ev(tgt, s):
                    out.append((self.store(s2, e[1], v, n), v))
            else:
                raise AnalysisError("cabs: unsupported assignment target %s in %s" % (tgt["kind"], self.fname))
        return out

    def call(self, n, st):
        callee = _strip(n["inner"][0])
        fname = callee.get("referencedDecl", {}).get("name")
        states = [(st, [])]
        for a in n["inner"][1:]:
            nxt = []
            for s, vals in states:
                for s2, v in self.ev(a, s):
                    if isinstance(v, tuple) and v[0] == "elem":
                        p = v[1]
                        v = s2.mem.get((p.base, p.lo)) if p.lo == p.hi else None
                        if v is None:
                            v = Num(-128, 127, (True, 8))
                    nxt.append((s2, vals + [v]))
            states = nxt
        out = []
        fdef = self.fns.get(fname)
        if fdef is not None and fname != self.fname and self.depth < 6:
            # inline a function defined in this file
            params = [p for p in fdef.get("inner", []) if p.get("kind") == "ParmVarDecl"]
            body = [c for c in fdef["inner"] if c.get("kind") == "CompoundStmt"][0]
            for s, vals in states:
                s2 = s.copy()
                caller = s2.frame
                s2.frame = s2.nframes
                s2.nframes += 1
                for p, v in zip(params, vals):
                    if isinstance(v, Num):
                        pt = tyinfo(p["type"]["qualType"])
                        if pt:
                            cs = self.cast(s2, v, pt, n)
                            if len(cs) == 1:
                                s2, v = cs[0][0], cs[0][1]
                    s2.vars[(s2.frame, p["name"])] = v
                s2.ret, s2.returned = None, False
                self.depth += 1
                try:
                    res = self.stmt(body, [s2])
                finally:
                    self.depth -= 1
                for r in res:
                    rv = r.ret if r.ret is not None else Num(0, 0, (True, 32))
                    r.frame = caller
                    r.ret, r.returned = None, False
                    out.append((r, rv))
            return out
        for s, vals in states:
            self.events.append((fname, vals, s))
            if fname == "write" and len(vals) == 3:
                p, ln = vals[1], vals[2]
                if isinstance(p, Ptr):
                    N = s.arrays.get(p.base)
                    self.ob("write-length", ln.lo >= 0 and p.lo >= 0 and N is not None and p.hi + ln.hi <= N,
                            "write(%r, len %r) must stay inside %s[%s]" % (p, ln, p.base[1], N), n)
            rt = tyinfo((n.get("type") or {}).get("qualType") or "") or (True, 64)
            lo_, hi_ = trange(rt)
            out.append((s, Num(lo_, hi_, rt, tag=("call", fname, len(self.events)))))
        return out

    # ---------- statements ----------
    def stmt(self, n, states):
        live = [s for s in states if not s.returned]
        done = [s for s in states if s.returned]
        if not live:
            return done
        if len(live) > MAX_STATES:
            raise AnalysisError("cabs: more than %d abstract states in %s" % (MAX_STATES, self.fname))
        return done + self._stmt(n, live)

    def _stmt(self, n, states):
        k = n["kind"]
        if k == "CompoundStmt":
            for c in n.get("inner", []):
                states = self.stmt(c, states)
            return states
        if k == "DeclStmt":
            import re
            for d in n.get("inner", []):
                if d.get("kind") != "VarDecl":
                    continue
                q = d["type"]["qualType"]
                nxt = []
                for s in states:
                    m = re.fullmatch(r"(?:const )?char\s*\[(\d+)\]", q)
                    if m:
                        s2 = s.copy()
                        s2.arrays[(s2.frame, d["name"])] = int(m.group(1))
                        nxt.append(s2)
                        continue
                    inits = [c for c in d.get("inner", []) if c.get("kind") not in ("FullComment",)]
                    if inits:
                        ci = _strip(inits[-1])
                        flag_cond = None
                        if ci.get("kind") == "BinaryOperator" and ci.get("opcode") in ("<", "<=", ">", ">=", "==", "!="):
                            reads = {x["referencedDecl"]["name"] for x in (_strip(ci["inner"][0]), _strip(ci["inner"][1])) if x.get("kind") == "DeclRefExpr"}
                            flag_cond = (ci, frozenset(reads))
                        for s2, v in self.ev(inits[-1], s):
                            s3 = s2.copy()
                            if flag_cond:
                                # `const bool negative = value < 0;`: branching on the flag later is branching on the comparison
                                s3.defcond[(s3.frame, d["name"])] = flag_cond
                            if isinstance(v, tuple) and v[0] == "elem":
                                v = s3.mem.get((v[1].base, v[1].lo), Num(-128, 127, (True, 8)))
                            t = tyinfo(q)
                            if isinstance(v, Num) and t:
                                cs = self.cast(s3, v, t, n)
                                for s4, v4 in cs:
                                    s5 = s4.copy()
                                    s5.vars[(s5.frame, d["name"])] = v4
                                    nxt.append(s5)
                                continue
                            s3.vars[(s3.frame, d["name"])] = v
                            nxt.append(s3)
                    else:
                        s2 = s.copy()
                        t = tyinfo(q)
                        s2.vars[(s2.frame, d["name"])] = Num(*trange(t), t) if t else None
                        nxt.append(s2)
                states = nxt
            return states
        if k == "IfStmt":
            inner = [c for c in n["inner"]]
            cond, then = inner[0], inner[1]
            els = inner[2] if len(inner) > 2 else None
            out = []
            for s in states:
                for s2, c in self.ev(cond, s):
                    if c.hi >= 1 or c.lo < 0:
                        for st in self._refine_split(cond, s2, True):
                            out.extend(self.stmt(then, [st]))
                    if c.lo <= 0 <= c.hi:
                        for sf in self._refine_split(cond, s2, False):
                            out.extend(self.stmt(els, [sf]) if els else [sf])
            return out
        if k in ("DoStmt", "WhileStmt", "ForStmt"):
            if k == "DoStmt":
                body, cond, init, inc = n["inner"][0], n["inner"][1], None, None
            elif k == "WhileStmt":
                cond, body, init, inc = n["inner"][0], n["inner"][1], None, None
            else:
                parts = n["inner"]
                init, cond, inc, body = parts[0], parts[2], parts[3], parts[4]
            if init and init.get("kind"):
                states = self.stmt(init, states)
            done = []
            cur = states
            first = True
            for it in range(MAX_UNROLL):
                if not (k == "DoStmt" and first):
                    nxt = []
                    for s in cur:
                        if s.returned:
                            done.append(s)
                            continue
                        if not cond or not cond.get("kind"):
                            nxt.append(s)
                            continue
                        for s2, c in self.ev(cond, s):
                            if c.lo <= 0 <= c.hi:
                                sf = self.refine(cond, s2.copy(), False)
                                if sf is not None:
                                    done.append(sf)
                            if c.hi >= 1 or c.lo < 0:
                                stt = self.refine(cond, s2.copy(), True)
                                if stt is not None:
                                    nxt.append(stt)
                    cur = nxt
                first = False
                if not cur:
                    break
                cur = self.stmt(body, cur)
                if inc and inc.get("kind"):
                    cur = self.stmt(inc, cur)
            else:
                self.ob("loop-terminates", False, "loop did not reach its exit within %d unrollings" % MAX_UNROLL, n)
                return done
            self.ob("loop-terminates", True, "", n)
            return done
        if k == "ReturnStmt":
            out = []
            for s in states:
                if n.get("inner"):
                    for s2, v in self.ev(n["inner"][0], s):
                        s3 = s2.copy()
                        s3.ret, s3.returned = v, True
                        out.append(s3)
                else:
                    s3 = s.copy()
                    s3.returned = True
                    out.append(s3)
            return out
        if k == "NullStmt":
            return states
        out = []
        for s in states:
            for s2, _ in self.ev(n, s):
                out.append(s2)
        return out


def analyse_function(fn, fns):
    """abstractly interpret one FunctionDecl with its first integer parameter ranging over its whole type"""
    a = Analysis(fn["name"], fns)
    st = State()
    first = True
    for p in fn.get("inner", []):
        if p.get("kind") == "ParmVarDecl":
            t = tyinfo(p["type"]["qualType"])
            if t:
                lo, hi = trange(t)
                if first:
                    st.P = (lo, hi)
                    st.M = (0, max(abs(lo), abs(hi)))
                    st.vars[(0, p["name"])] = Num(lo, hi, t, (1, 0))
                    first = False
                else:
                    st.vars[(0, p["name"])] = Num(lo, hi, t)
            elif p.get("name"):
                st.vars[(0, p["name"])] = ("opaque", p["name"])     # a pointer parameter: only handed on
    body = [c for c in fn["inner"] if c.get("kind") == "CompoundStmt"][0]
    a.finals = a.stmt(body, [st])
    return a
