// scc-facts: rustc_private driver that dumps MIR-level facts of every local body as JSON.
// Injected with RUSTC_WORKSPACE_WRAPPER under `cargo +nightly check`. One file per rustc process.
#![feature(rustc_private)]
extern crate rustc_abi;
extern crate rustc_driver;
extern crate rustc_hir;
extern crate rustc_interface;
extern crate rustc_middle;
extern crate rustc_span;

mod json;
use json::J;

use rustc_driver::{Callbacks, Compilation};
use rustc_hir::def::DefKind;
use rustc_hir::def_id::{DefId, LOCAL_CRATE};
use rustc_middle::mir::{
    self, AggregateKind, BasicBlockData, Body, BorrowKind, Const, Operand, Place, ProjectionElem,
    Rvalue, StatementKind, TerminatorKind,
};
use rustc_middle::ty::print::with_no_trimmed_paths;
use rustc_middle::ty::{self, Instance, Ty, TyCtxt, TypingEnv};
use rustc_span::Span;

struct Cb;

fn dpath(tcx: TyCtxt<'_>, did: DefId) -> String {
    // canonical definition path (not the re-export-dependent "visible" path), same in every crate
    format!("{}{}", tcx.crate_name(did.krate), tcx.def_path(did).to_string_no_crate_verbose())
}

fn ty_str(ty: Ty<'_>) -> String {
    with_no_trimmed_paths!(format!("{}", ty))
}

/// ADT def path after peeling references, Box, Rc, Vec, Option (outermost ADT and the "core" ADT).
fn adt_of<'tcx>(tcx: TyCtxt<'tcx>, ty: Ty<'tcx>) -> (Option<String>, Option<String>) {
    let mut t = ty;
    let mut outer: Option<String> = None;
    for _ in 0..8 {
        match t.kind() {
            ty::Ref(_, inner, _) => t = *inner,
            ty::RawPtr(inner, _) => t = *inner,
            ty::Slice(inner) | ty::Array(inner, _) => t = *inner,
            ty::Adt(def, args) => {
                let p = dpath(tcx, def.did());
                if outer.is_none() {
                    outer = Some(p.clone());
                }
                let peel = matches!(
                    p.as_str(),
                    "std::rc::Rc" | "std::boxed::Box" | "std::vec::Vec" | "std::option::Option" | "alloc::rc::Rc"
                        | "alloc::boxed::Box" | "alloc::vec::Vec" | "core::option::Option" | "std::sync::Arc"
                );
                if peel && args.len() > 0 {
                    if let Some(inner) = args.types().next() {
                        t = inner;
                        continue;
                    }
                }
                return (outer, Some(p));
            }
            _ => return (outer, None),
        }
    }
    (outer, None)
}

struct Cx<'tcx> {
    tcx: TyCtxt<'tcx>,
    krate: String,
}

impl<'tcx> Cx<'tcx> {
    fn span(&self, sp: Span) -> J {
        let sm = self.tcx.sess.source_map();
        let exp = sp.from_expansion();
        let mut o: Vec<(String, J)> = Vec::new();
        let call = if exp { sp.source_callsite() } else { sp };
        let lo = sm.lookup_char_pos(call.lo());
        let hi = sm.lookup_char_pos(call.hi());
        let file = match &lo.file.name {
            rustc_span::FileName::Real(r) => match r.local_path() {
                Some(p) => p.to_string_lossy().to_string(),
                None => format!("{:?}", lo.file.name),
            },
            other => format!("{:?}", other),
        };
        o.push(("file".into(), J::Str(file)));
        o.push(("line".into(), J::Num(lo.line as i128)));
        o.push(("col".into(), J::Num(lo.col.0 as i128)));
        o.push(("eline".into(), J::Num(hi.line as i128)));
        o.push(("ecol".into(), J::Num(hi.col.0 as i128)));
        if exp {
            o.push(("exp".into(), J::Bool(true)));
            // chain of macro names, innermost first
            let mut names = Vec::new();
            let mut cur = sp;
            for _ in 0..8 {
                if !cur.from_expansion() {
                    break;
                }
                let data = cur.ctxt().outer_expn_data();
                names.push(J::Str(format!("{}", data.kind.descr())));
                cur = data.call_site;
            }
            o.push(("macros".into(), J::Arr(names)));
        }
        J::Obj(o)
    }

    fn place(&self, body: &Body<'tcx>, p: &Place<'tcx>) -> J {
        let tcx = self.tcx;
        let mut projs = Vec::new();
        let mut pty = mir::PlaceTy::from_ty(body.local_decls[p.local].ty);
        for elem in p.projection.iter() {
            let j = match elem {
                ProjectionElem::Deref => J::Str("*".into()),
                ProjectionElem::Field(f, fty) => {
                    let mut name = format!("{}", f.index());
                    let mut owner: Option<String> = None;
                    if let ty::Adt(def, _) = pty.ty.kind() {
                        let vidx = pty.variant_index.unwrap_or(rustc_abi::VariantIdx::from_u32(0));
                        if def.variants().len() > vidx.index() {
                            let v = def.variant(vidx);
                            if v.fields.len() > f.index() {
                                name = v.fields[f].name.to_string();
                            }
                            owner = Some(format!("{}::{}", dpath(tcx, def.did()), v.name));
                        }
                    }
                    let (_, core) = adt_of(tcx, fty);
                    J::obj(vec![
                        ("f", J::Num(f.index() as i128)),
                        ("n", J::Str(name)),
                        ("of", owner.map(J::Str).unwrap_or(J::Null)),
                        ("ty", J::Str(ty_str(fty))),
                        ("adt", core.map(J::Str).unwrap_or(J::Null)),
                    ])
                }
                ProjectionElem::Index(l) => J::obj(vec![("idx", J::Num(l.index() as i128))]),
                ProjectionElem::ConstantIndex { offset, from_end, .. } => {
                    J::obj(vec![("cidx", J::Num(offset as i128)), ("from_end", J::Bool(from_end))])
                }
                ProjectionElem::Subslice { from, to, from_end } => J::obj(vec![
                    ("sub", J::Num(from as i128)),
                    ("to", J::Num(to as i128)),
                    ("from_end", J::Bool(from_end)),
                ]),
                ProjectionElem::Downcast(name, vidx) => {
                    let mut n = name.map(|s| s.to_string());
                    if n.is_none() {
                        if let ty::Adt(def, _) = pty.ty.kind() {
                            n = Some(def.variant(vidx).name.to_string());
                        }
                    }
                    J::obj(vec![
                        ("dc", J::Str(n.unwrap_or_default())),
                        ("vi", J::Num(vidx.index() as i128)),
                    ])
                }
                ProjectionElem::OpaqueCast(_) => J::Str("opaque".into()),
                ProjectionElem::UnwrapUnsafeBinder(_) => J::Str("unbinder".into()),
            };
            projs.push(j);
            pty = pty.projection_ty(tcx, elem);
        }
        J::obj(vec![("l", J::Num(p.local.index() as i128)), ("p", J::Arr(projs))])
    }

    fn constant(&self, owner: DefId, c: &mir::ConstOperand<'tcx>) -> J {
        let tcx = self.tcx;
        let ty = c.const_.ty();
        let mut o: Vec<(&str, J)> = vec![("k", J::Str("const".into())), ("ty", J::Str(ty_str(ty)))];
        match ty.kind() {
            ty::FnDef(did, args) => {
                o.push(("fn", J::Str(dpath(tcx, *did))));
                o.push(("fn_args", J::Str(with_no_trimmed_paths!(format!("{:?}", args)))));
                let env = TypingEnv::post_analysis(tcx, owner);
                if let Ok(Some(inst)) = Instance::try_resolve(tcx, env, *did, args) {
                    o.push(("fn_res", J::Str(dpath(tcx, inst.def_id()))));
                }
            }
            ty::Closure(did, _) => {
                o.push(("closure", J::Str(dpath(tcx, *did))));
            }
            _ => {}
        }
        if let Const::Unevaluated(uv, _) = c.const_ {
            o.push(("def", J::Str(dpath(tcx, uv.def))));
            if uv.promoted.is_some() {
                o.push(("promoted", J::Num(uv.promoted.unwrap().index() as i128)));
            }
        }
        if let Const::Ty(_, ct) = c.const_ {
            if let ty::ConstKind::Unevaluated(uv) = ct.kind() {
                o.push(("def", J::Str(dpath(tcx, uv.def))));
            }
        }
        // byte-array constants (format_args! templates are `&[u8; N]`)
        if let ty::Ref(_, inner, _) = ty.kind() {
            if let ty::Array(elem, len) = inner.kind() {
                if *elem == tcx.types.u8 {
                    if let Const::Val(mir::ConstValue::Scalar(rustc_middle::mir::interpret::Scalar::Ptr(ptr, _)), _) = c.const_ {
                        if let Some(n) = len.try_to_target_usize(tcx) {
                            if let Some(rustc_middle::mir::interpret::GlobalAlloc::Memory(alloc)) =
                                tcx.try_get_global_alloc(ptr.provenance.alloc_id())
                            {
                                let off = ptr.into_raw_parts().1.bytes() as usize;
                                let a = alloc.inner();
                                if off + (n as usize) <= a.len() {
                                    let bytes = a.inspect_with_uninit_and_ptr_outside_interpreter(off..off + n as usize);
                                    o.push(("bytes", J::Arr(bytes.iter().map(|b| J::Num(*b as i128)).collect())));
                                }
                            }
                        }
                    }
                }
            }
        }
        if let Const::Val(mir::ConstValue::Scalar(rustc_middle::mir::interpret::Scalar::Ptr(ptr, _)), _) = c.const_ {
            if let Some(rustc_middle::mir::interpret::GlobalAlloc::Static(sdid)) =
                tcx.try_get_global_alloc(ptr.provenance.alloc_id())
            {
                o.push(("static", J::Str(dpath(tcx, sdid))));
            }
        }
        let env = TypingEnv::post_analysis(tcx, owner);
        let is_scalar = ty.is_integral() || ty.is_bool() || ty.is_char();
        if is_scalar {
            if let Some(si) = c.const_.try_eval_scalar_int(tcx, env) {
                let size = si.size();
                let bits = si.to_bits(size);
                let v: i128 = if ty.is_signed() { size.sign_extend(bits) as i128 } else { bits as i128 };
                o.push(("val", J::Num(v)));
            }
        } else if let ty::Ref(_, inner, _) = ty.kind() {
            if inner.is_str() {
                if let Const::Val(cv, _) = c.const_ {
                    if let Some(bytes) = cv.try_get_slice_bytes_for_diagnostics(tcx) {
                        o.push(("str", J::Str(String::from_utf8_lossy(bytes).to_string())));
                    }
                }
            }
        }
        J::obj(o)
    }

    fn operand(&self, owner: DefId, body: &Body<'tcx>, op: &Operand<'tcx>) -> J {
        match op {
            Operand::Copy(p) => J::obj(vec![("k", J::Str("copy".into())), ("pl", self.place(body, p))]),
            Operand::Move(p) => J::obj(vec![("k", J::Str("move".into())), ("pl", self.place(body, p))]),
            Operand::Constant(c) => self.constant(owner, c),
            #[allow(unreachable_patterns)]
            _ => J::obj(vec![("k", J::Str("runtime_checks".into()))]),
        }
    }

    fn rvalue(&self, owner: DefId, body: &Body<'tcx>, rv: &Rvalue<'tcx>) -> J {
        let tcx = self.tcx;
        match rv {
            Rvalue::Use(op, ..) => J::obj(vec![("k", J::Str("use".into())), ("op", self.operand(owner, body, op))]),
            Rvalue::Repeat(op, _) => {
                J::obj(vec![("k", J::Str("repeat".into())), ("op", self.operand(owner, body, op))])
            }
            Rvalue::Ref(_, bk, p) => J::obj(vec![
                ("k", J::Str("ref".into())),
                ("mut", J::Bool(matches!(bk, BorrowKind::Mut { .. }))),
                ("pl", self.place(body, p)),
            ]),
            Rvalue::ThreadLocalRef(d) => {
                J::obj(vec![("k", J::Str("tlsref".into())), ("def", J::Str(dpath(tcx, *d)))])
            }
            Rvalue::RawPtr(kind, p) => J::obj(vec![
                ("k", J::Str("rawptr".into())),
                ("kind", J::Str(format!("{:?}", kind))),
                ("pl", self.place(body, p)),
            ]),
            Rvalue::Cast(kind, op, ty) => J::obj(vec![
                ("k", J::Str("cast".into())),
                ("kind", J::Str(format!("{:?}", kind))),
                ("op", self.operand(owner, body, op)),
                ("ty", J::Str(ty_str(*ty))),
            ]),
            Rvalue::BinaryOp(bop, ops) => J::obj(vec![
                ("k", J::Str("binop".into())),
                ("op", J::Str(format!("{:?}", bop))),
                ("a", self.operand(owner, body, &ops.0)),
                ("b", self.operand(owner, body, &ops.1)),
            ]),
            Rvalue::UnaryOp(uop, op) => J::obj(vec![
                ("k", J::Str("unop".into())),
                ("op", J::Str(format!("{:?}", uop))),
                ("a", self.operand(owner, body, op)),
            ]),
            Rvalue::Discriminant(p) => {
                J::obj(vec![("k", J::Str("discr".into())), ("pl", self.place(body, p))])
            }
            Rvalue::Aggregate(kind, ops) => {
                let mut o: Vec<(&str, J)> = vec![("k", J::Str("agg".into()))];
                match &**kind {
                    AggregateKind::Array(_) => o.push(("agg", J::Str("array".into()))),
                    AggregateKind::Tuple => o.push(("agg", J::Str("tuple".into()))),
                    AggregateKind::Adt(did, vidx, _, _, active) => {
                        o.push(("agg", J::Str("adt".into())));
                        o.push(("adt", J::Str(dpath(tcx, *did))));
                        let def = tcx.adt_def(*did);
                        let v = def.variant(*vidx);
                        o.push(("variant", J::Str(v.name.to_string())));
                        o.push(("vi", J::Num(vidx.index() as i128)));
                        let names: Vec<J> = match active {
                            Some(f) => vec![J::Str(v.fields[*f].name.to_string())],
                            None => v.fields.iter().map(|f| J::Str(f.name.to_string())).collect(),
                        };
                        o.push(("fields", J::Arr(names)));
                    }
                    AggregateKind::Closure(did, _) => {
                        o.push(("agg", J::Str("closure".into())));
                        o.push(("closure", J::Str(dpath(tcx, *did))));
                    }
                    AggregateKind::Coroutine(did, _) | AggregateKind::CoroutineClosure(did, _) => {
                        o.push(("agg", J::Str("coroutine".into())));
                        o.push(("closure", J::Str(dpath(tcx, *did))));
                    }
                    AggregateKind::RawPtr(..) => o.push(("agg", J::Str("rawptr".into()))),
                }
                o.push(("ops", J::Arr(ops.iter().map(|x| self.operand(owner, body, x)).collect())));
                J::obj(o)
            }
            Rvalue::CopyForDeref(p) => J::obj(vec![
                ("k", J::Str("use".into())),
                ("op", J::obj(vec![("k", J::Str("copy".into())), ("pl", self.place(body, p))])),
            ]),
            Rvalue::WrapUnsafeBinder(op, _) => {
                J::obj(vec![("k", J::Str("use".into())), ("op", self.operand(owner, body, op))])
            }
        }
    }

    fn block(&self, owner: DefId, body: &Body<'tcx>, bb: &BasicBlockData<'tcx>) -> J {
        let tcx = self.tcx;
        let mut stmts = Vec::new();
        for st in &bb.statements {
            match &st.kind {
                StatementKind::Assign(b) => {
                    let (pl, rv) = &**b;
                    stmts.push(J::obj(vec![
                        ("k", J::Str("assign".into())),
                        ("lhs", self.place(body, pl)),
                        ("rv", self.rvalue(owner, body, rv)),
                        ("sp", self.span(st.source_info.span)),
                    ]));
                }
                StatementKind::SetDiscriminant { place, variant_index } => {
                    stmts.push(J::obj(vec![
                        ("k", J::Str("setdiscr".into())),
                        ("lhs", self.place(body, place)),
                        ("vi", J::Num(variant_index.index() as i128)),
                        ("sp", self.span(st.source_info.span)),
                    ]));
                }
                _ => {}
            }
        }
        let term = bb.terminator();
        let sp = self.span(term.source_info.span);
        let t = match &term.kind {
            TerminatorKind::Goto { target } => {
                J::obj(vec![("k", J::Str("goto".into())), ("target", J::Num(target.index() as i128))])
            }
            TerminatorKind::SwitchInt { discr, targets } => {
                let mut ts = Vec::new();
                for (v, b) in targets.iter() {
                    ts.push(J::Arr(vec![J::Num(v as i128), J::Num(b.index() as i128)]));
                }
                J::obj(vec![
                    ("k", J::Str("switch".into())),
                    ("discr", self.operand(owner, body, discr)),
                    ("targets", J::Arr(ts)),
                    ("otherwise", J::Num(targets.otherwise().index() as i128)),
                ])
            }
            TerminatorKind::Return => J::obj(vec![("k", J::Str("return".into()))]),
            TerminatorKind::Unreachable => J::obj(vec![("k", J::Str("unreachable".into()))]),
            TerminatorKind::UnwindResume => J::obj(vec![("k", J::Str("resume".into()))]),
            TerminatorKind::UnwindTerminate(_) => J::obj(vec![("k", J::Str("terminate".into()))]),
            TerminatorKind::Drop { place, target, .. } => J::obj(vec![
                ("k", J::Str("drop".into())),
                ("pl", self.place(body, place)),
                ("target", J::Num(target.index() as i128)),
            ]),
            TerminatorKind::Call { func, args, destination, target, fn_span, .. } => {
                let mut o: Vec<(&str, J)> = vec![("k", J::Str("call".into()))];
                o.push(("func", self.operand(owner, body, func)));
                // structured callee info
                if let Operand::Constant(c) = func {
                    if let ty::FnDef(did, gargs) = c.const_.ty().kind() {
                        o.push(("callee", J::Str(dpath(tcx, *did))));
                        o.push(("callee_name", J::Str(tcx.item_name(*did).to_string())));
                        if let Some(tr) = tcx.trait_of_assoc(*did) {
                            o.push(("callee_trait", J::Str(dpath(tcx, tr))));
                            if gargs.len() > 0 {
                                if let Some(selfty) = gargs.types().next() {
                                    o.push(("callee_self", J::Str(ty_str(selfty))));
                                    let (outer, core) = adt_of(tcx, selfty);
                                    o.push(("callee_self_adt", outer.map(J::Str).unwrap_or(J::Null)));
                                    o.push(("callee_self_core", core.map(J::Str).unwrap_or(J::Null)));
                                }
                            }
                        } else if let Some(imp) = tcx.impl_of_assoc(*did) {
                            let selfty = tcx.type_of(imp).instantiate_identity().skip_norm_wip();
                            o.push(("callee_self", J::Str(ty_str(selfty))));
                            let (outer, core) = adt_of(tcx, selfty);
                            o.push(("callee_self_adt", outer.map(J::Str).unwrap_or(J::Null)));
                            o.push(("callee_self_core", core.map(J::Str).unwrap_or(J::Null)));
                        }
                        let env = TypingEnv::post_analysis(tcx, owner);
                        if let Ok(Some(inst)) = Instance::try_resolve(tcx, env, *did, gargs) {
                            let rd = inst.def_id();
                            o.push(("resolved", J::Str(dpath(tcx, rd))));
                            o.push(("resolved_key", J::Str(self.fn_key(rd))));
                        }
                        o.push(("callee_key", J::Str(self.fn_key(*did))));
                    }
                }
                o.push(("args", J::Arr(args.iter().map(|a| self.operand(owner, body, &a.node)).collect())));
                o.push(("dest", self.place(body, destination)));
                o.push(("target", target.map(|t| J::Num(t.index() as i128)).unwrap_or(J::Null)));
                o.push(("fn_sp", self.span(*fn_span)));
                J::obj(o)
            }
            TerminatorKind::Assert { cond, expected, msg, target, .. } => {
                let kind = match &**msg {
                    mir::AssertKind::BoundsCheck { .. } => "BoundsCheck".to_string(),
                    mir::AssertKind::Overflow(op, ..) => format!("Overflow({:?})", op),
                    mir::AssertKind::OverflowNeg(_) => "OverflowNeg".to_string(),
                    mir::AssertKind::DivisionByZero(_) => "DivisionByZero".to_string(),
                    mir::AssertKind::RemainderByZero(_) => "RemainderByZero".to_string(),
                    other => format!("{:?}", std::mem::discriminant(other)),
                };
                J::obj(vec![
                    ("k", J::Str("assert".into())),
                    ("cond", self.operand(owner, body, cond)),
                    ("expected", J::Bool(*expected)),
                    ("msg", J::Str(kind)),
                    ("target", J::Num(target.index() as i128)),
                ])
            }
            TerminatorKind::FalseEdge { real_target, .. } => {
                J::obj(vec![("k", J::Str("goto".into())), ("target", J::Num(real_target.index() as i128))])
            }
            TerminatorKind::FalseUnwind { real_target, .. } => {
                J::obj(vec![("k", J::Str("goto".into())), ("target", J::Num(real_target.index() as i128))])
            }
            other => J::obj(vec![("k", J::Str("other".into())), ("dbg", J::Str(format!("{:?}", std::mem::discriminant(other))))]),
        };
        let mut t = t;
        if let J::Obj(ref mut v) = t {
            v.push(("sp".into(), sp));
        }
        J::obj(vec![("cleanup", J::Bool(bb.is_cleanup)), ("stmts", J::Arr(stmts)), ("term", t)])
    }

    /// Canonical, line-free key of a function-like item.
    fn fn_key(&self, did: DefId) -> String {
        let tcx = self.tcx;
        let kind = tcx.def_kind(did);
        match kind {
            DefKind::Closure => {
                let parent = tcx.parent(did);
                let idx = tcx.def_path(did).data.last().map(|d| d.disambiguator).unwrap_or(0);
                format!("{}::{{closure#{}}}", self.fn_key(parent), idx)
            }
            DefKind::AssocFn | DefKind::AssocConst { .. } => {
                let name = tcx.item_name(did).to_string();
                if let Some(imp) = tcx.impl_of_assoc(did) {
                    let selfty = tcx.type_of(imp).instantiate_identity().skip_norm_wip();
                    let (outer, _) = adt_of(tcx, selfty);
                    let st = match (selfty.kind(), outer) {
                        (ty::Adt(..), Some(p)) => p,
                        _ => ty_str(selfty),
                    };
                    if let Some(tr) = tcx.impl_opt_trait_ref(imp) {
                        let tr = tr.instantiate_identity().skip_norm_wip();
                        let targs: Vec<String> = tr.args.iter().skip(1).filter_map(|a| a.as_type().map(|t| {
                            let (o, _) = adt_of(tcx, t);
                            match (t.kind(), o) {
                                (ty::Adt(_, ga), Some(p)) => {
                                    // keep concrete ADT arguments of the trait's type argument (`From<Term<Prd>>` and
                                    // `From<Term<Cns>>` are different impls)
                                    let inner: Vec<String> = ga.types().filter_map(|t2| match t2.kind() {
                                        ty::Adt(d, _) => Some(tcx.item_name(d.did()).to_string()),
                                        _ => None,
                                    }).collect();
                                    if inner.is_empty() { p } else { format!("{}<{}>", p, inner.join(",")) }
                                }
                                _ => ty_str(t),
                            }
                        })).collect();
                        let trp = dpath(tcx, tr.def_id);
                        let trs = if targs.is_empty() { trp } else { format!("{}<{}>", trp, targs.join(",")) };
                        // include generic args of self type when they are concrete ADTs (e.g. Term<Prd>)
                        let sargs: Vec<String> = match selfty.kind() {
                            ty::Adt(_, a) => a.types().filter_map(|t| match t.kind() {
                                ty::Adt(d, _) => Some(tcx.item_name(d.did()).to_string()),
                                _ => None,
                            }).collect(),
                            _ => vec![],
                        };
                        let st = if sargs.is_empty() { st } else { format!("{}<{}>", st, sargs.join(",")) };
                        format!("<{} as {}>::{}", st, trs, name)
                    } else {
                        let sargs: Vec<String> = match selfty.kind() {
                            ty::Adt(_, a) => a.types().filter_map(|t| match t.kind() {
                                ty::Adt(d, _) => Some(tcx.item_name(d.did()).to_string()),
                                _ => None,
                            }).collect(),
                            _ => vec![],
                        };
                        let st = if sargs.is_empty() { st } else { format!("{}<{}>", st, sargs.join(",")) };
                        format!("{}::{}", st, name)
                    }
                } else {
                    dpath(tcx, did)
                }
            }
            _ => dpath(tcx, did),
        }
    }

    fn body(&self, did: DefId, body: &Body<'tcx>, promoted_idx: Option<usize>) -> J {
        let tcx = self.tcx;
        let mut o: Vec<(&str, J)> = Vec::new();
        let kind = tcx.def_kind(did);
        o.push(("key", J::Str(match promoted_idx {
            Some(i) => format!("{}::{{promoted#{}}}", self.fn_key(did), i),
            None => self.fn_key(did),
        })));
        o.push(("path", J::Str(dpath(tcx, did))));
        o.push(("kind", J::Str(format!("{:?}", kind))));
        o.push(("crate", J::Str(self.krate.clone())));
        if !matches!(kind, DefKind::Closure | DefKind::AnonConst | DefKind::InlineConst) {
            o.push(("name", J::Str(tcx.item_name(did).to_string())));
        }
        if kind == DefKind::Closure {
            o.push(("parent", J::Str(self.fn_key(tcx.parent(did)))));
        }
        if matches!(kind, DefKind::AssocFn) {
            if let Some(imp) = tcx.impl_of_assoc(did) {
                let selfty = tcx.type_of(imp).instantiate_identity().skip_norm_wip();
                o.push(("impl_self", J::Str(ty_str(selfty))));
                let (outer, core) = adt_of(tcx, selfty);
                o.push(("impl_self_adt", outer.map(J::Str).unwrap_or(J::Null)));
                o.push(("impl_self_core", core.map(J::Str).unwrap_or(J::Null)));
                if let Some(tr) = tcx.impl_opt_trait_ref(imp) {
                    let tr = tr.instantiate_identity().skip_norm_wip();
                    o.push(("impl_trait", J::Str(dpath(tcx, tr.def_id))));
                    o.push(("impl_trait_full", J::Str(with_no_trimmed_paths!(format!("{}", tr)))));
                }
            } else if let Some(tr) = tcx.trait_of_assoc(did) {
                o.push(("trait_default", J::Str(dpath(tcx, tr))));
            }
        }
        o.push(("sp", self.span(body.span)));
        o.push(("argc", J::Num(body.arg_count as i128)));
        let mut locals = Vec::new();
        for (_, decl) in body.local_decls.iter_enumerated() {
            let (outer, core) = adt_of(tcx, decl.ty);
            locals.push(J::obj(vec![
                ("ty", J::Str(ty_str(decl.ty))),
                ("adt", outer.map(J::Str).unwrap_or(J::Null)),
                ("core", core.map(J::Str).unwrap_or(J::Null)),
            ]));
        }
        o.push(("locals", J::Arr(locals)));
        let mut dbg = Vec::new();
        for vdi in &body.var_debug_info {
            if let mir::VarDebugInfoContents::Place(p) = &vdi.value {
                dbg.push(J::obj(vec![("name", J::Str(vdi.name.to_string())), ("pl", self.place(body, p))]));
            }
        }
        o.push(("vars", J::Arr(dbg)));
        let blocks: Vec<J> = body.basic_blocks.iter().map(|bb| self.block(did, body, bb)).collect();
        o.push(("blocks", J::Arr(blocks)));
        J::obj(o)
    }
}

impl Callbacks for Cb {
    fn after_analysis<'tcx>(&mut self, _c: &rustc_interface::interface::Compiler, tcx: TyCtxt<'tcx>) -> Compilation {
        let out_dir = match std::env::var("SCC_FACTS_OUT") {
            Ok(d) => d,
            Err(_) => return Compilation::Continue,
        };
        let krate = tcx.crate_name(LOCAL_CRATE).to_string();
        let cx = Cx { tcx, krate: krate.clone() };
        let mut fns = Vec::new();
        for ldid in tcx.hir_body_owners() {
            let did = ldid.to_def_id();
            let kind = tcx.def_kind(did);
            match kind {
                DefKind::Fn | DefKind::AssocFn | DefKind::Closure => {
                    let body = tcx.optimized_mir(did);
                    fns.push(cx.body(did, body, None));
                    let promoted = tcx.promoted_mir(did);
                    for (i, pb) in promoted.iter_enumerated() {
                        fns.push(cx.body(did, pb, Some(i.index())));
                    }
                }
                _ => {}
            }
        }
        // ADTs, impls, consts, statics
        let mut adts = Vec::new();
        let mut consts = Vec::new();
        let mut statics = Vec::new();
        let mut impls = Vec::new();
        let mut traits = Vec::new();
        for id in tcx.hir_crate_items(()).definitions() {
            let did = id.to_def_id();
            match tcx.def_kind(did) {
                DefKind::Struct | DefKind::Enum => {
                    let def = tcx.adt_def(did);
                    let mut vs = Vec::new();
                    for v in def.variants() {
                        let mut fs = Vec::new();
                        for f in v.fields.iter() {
                            let fty = tcx.type_of(f.did).instantiate_identity().skip_norm_wip();
                            let (outer, core) = adt_of(tcx, fty);
                            // instantiated fields of the struct this field refers to (after peeling Rc/Box/Vec/Option/&)
                            let mut peeled = fty;
                            for _ in 0..6 {
                                match peeled.kind() {
                                    ty::Ref(_, inner, _) => peeled = *inner,
                                    ty::Adt(d, a) if a.len() > 0 && matches!(
                                        dpath(tcx, d.did()).as_str(),
                                        "alloc::rc::Rc" | "alloc::boxed::Box" | "alloc::vec::Vec" | "core::option::Option"
                                    ) => {
                                        if let Some(i) = a.types().next() { peeled = i; } else { break; }
                                    }
                                    _ => break,
                                }
                            }
                            let mut inst = Vec::new();
                            if let ty::Adt(d2, a2) = peeled.kind() {
                                if d2.is_struct() && d2.did().is_local() {
                                    for f2 in d2.non_enum_variant().fields.iter() {
                                        let t2 = f2.ty(tcx, a2);
                                        let (_, c2) = adt_of(tcx, t2);
                                        let mut p2 = t2;
                                        for _ in 0..6 {
                                            match p2.kind() {
                                                ty::Ref(_, inner, _) => p2 = *inner,
                                                ty::Adt(d, a) if a.len() > 0 && matches!(
                                                    dpath(tcx, d.did()).as_str(),
                                                    "alloc::rc::Rc" | "alloc::boxed::Box" | "alloc::vec::Vec" | "core::option::Option"
                                                ) => {
                                                    if let Some(i) = a.types().next() { p2 = i; } else { break; }
                                                }
                                                _ => break,
                                            }
                                        }
                                        inst.push(J::obj(vec![
                                            ("name", J::Str(f2.name.to_string())),
                                            ("ty", J::Str(ty_str(t2))),
                                            ("core", c2.map(J::Str).unwrap_or(J::Null)),
                                            ("is_param", J::Bool(matches!(p2.kind(), ty::Param(_)))),
                                        ]));
                                    }
                                }
                            }
                            fs.push(J::obj(vec![
                                ("name", J::Str(f.name.to_string())),
                                ("ty", J::Str(ty_str(fty))),
                                ("adt", outer.map(J::Str).unwrap_or(J::Null)),
                                ("core", core.map(J::Str).unwrap_or(J::Null)),
                                ("is_param", J::Bool(matches!(peeled.kind(), ty::Param(_)))),
                                ("inst", J::Arr(inst)),
                            ]));
                        }
                        vs.push(J::obj(vec![("name", J::Str(v.name.to_string())), ("fields", J::Arr(fs))]));
                    }
                    adts.push(J::obj(vec![
                        ("path", J::Str(dpath(tcx, did))),
                        ("kind", J::Str(if def.is_enum() { "enum".into() } else { "struct".into() })),
                        ("variants", J::Arr(vs)),
                        ("sp", cx.span(tcx.def_span(did))),
                    ]));
                }
                DefKind::Const { .. } | DefKind::AssocConst { .. } => {
                    let ty = tcx.type_of(did).instantiate_identity().skip_norm_wip();
                    let mut o = vec![("path", J::Str(dpath(tcx, did))), ("key", J::Str(cx.fn_key(did))), ("ty", J::Str(ty_str(ty)))];
                    if ty.is_integral() || ty.is_bool() {
                        if tcx.generics_of(did).count() == 0 || tcx.generics_of(did).own_requires_monomorphization() == false {
                            if let Ok(cv) = tcx.const_eval_poly(did) {
                                if let Some(si) = cv.try_to_scalar_int() {
                                    let size = si.size();
                                    let bits = si.to_bits(size);
                                    let v: i128 = if ty.is_signed() { size.sign_extend(bits) as i128 } else { bits as i128 };
                                    o.push(("val", J::Num(v)));
                                }
                            }
                        }
                    }
                    if let ty::Ref(_, inner, _) = ty.kind() {
                        if inner.is_str() && tcx.generics_of(did).count() == 0 {
                            if let Ok(cv) = tcx.const_eval_poly(did) {
                                if let Some(bytes) = cv.try_get_slice_bytes_for_diagnostics(tcx) {
                                    o.push(("str", J::Str(String::from_utf8_lossy(bytes).to_string())));
                                }
                            }
                        }
                    }
                    if matches!(ty.kind(), ty::Adt(..) | ty::Tuple(..) | ty::Array(..)) && tcx.generics_of(did).count() == 0 {
                        if let Ok(cv) = tcx.const_eval_poly(did) {
                            let c = mir::Const::Val(cv, ty);
                            o.push(("repr", J::Str(with_no_trimmed_paths!(format!("{}", c)))));
                        }
                    }
                    o.push(("sp", cx.span(tcx.def_span(did))));
                    consts.push(J::obj(o));
                }
                DefKind::Static { mutability, .. } => {
                    let ty = tcx.type_of(did).instantiate_identity().skip_norm_wip();
                    statics.push(J::obj(vec![
                        ("path", J::Str(dpath(tcx, did))),
                        ("ty", J::Str(ty_str(ty))),
                        ("mut", J::Bool(mutability.is_mut())),
                        ("freeze", J::Bool(ty.is_freeze(tcx, TypingEnv::fully_monomorphized()))),
                        ("sp", cx.span(tcx.def_span(did))),
                    ]));
                }
                DefKind::Impl { of_trait } => {
                    let selfty = tcx.type_of(did).instantiate_identity().skip_norm_wip();
                    let (outer, core) = adt_of(tcx, selfty);
                    let mut o = vec![
                        ("self", J::Str(ty_str(selfty))),
                        ("self_adt", outer.map(J::Str).unwrap_or(J::Null)),
                        ("self_core", core.map(J::Str).unwrap_or(J::Null)),
                    ];
                    if of_trait {
                        let tr = tcx.impl_trait_ref(did).instantiate_identity().skip_norm_wip();
                        o.push(("trait", J::Str(dpath(tcx, tr.def_id))));
                        o.push(("trait_full", J::Str(with_no_trimmed_paths!(format!("{}", tr)))));
                    }
                    if let ty::Adt(adef, aargs) = selfty.kind() {
                        let mut vs = Vec::new();
                        for v in adef.variants() {
                            let mut fs = Vec::new();
                            for f in v.fields.iter() {
                                let fty = f.ty(tcx, aargs);
                                let (fo, fc) = adt_of(tcx, fty);
                                let mut peeled = fty;
                                for _ in 0..6 {
                                    match peeled.kind() {
                                        ty::Ref(_, inner, _) => peeled = *inner,
                                        ty::Adt(d, a) if a.len() > 0 && matches!(
                                            dpath(tcx, d.did()).as_str(),
                                            "alloc::rc::Rc" | "alloc::boxed::Box" | "alloc::vec::Vec" | "core::option::Option"
                                        ) => {
                                            if let Some(i) = a.types().next() { peeled = i; } else { break; }
                                        }
                                        _ => break,
                                    }
                                }
                                fs.push(J::obj(vec![
                                    ("name", J::Str(f.name.to_string())),
                                    ("ty", J::Str(ty_str(fty))),
                                    ("adt", fo.map(J::Str).unwrap_or(J::Null)),
                                    ("core", fc.map(J::Str).unwrap_or(J::Null)),
                                    ("is_param", J::Bool(matches!(peeled.kind(), ty::Param(_)))),
                                ]));
                            }
                            vs.push(J::obj(vec![("name", J::Str(v.name.to_string())), ("fields", J::Arr(fs))]));
                        }
                        o.push(("inst_variants", J::Arr(vs)));
                    }
                    let mut ms = Vec::new();
                    for item in tcx.associated_items(did).in_definition_order() {
                        if matches!(item.kind, ty::AssocKind::Fn { .. }) {
                            ms.push(J::obj(vec![
                                ("name", J::Str(item.name().to_string())),
                                ("key", J::Str(cx.fn_key(item.def_id))),
                            ]));
                        }
                    }
                    o.push(("methods", J::Arr(ms)));
                    o.push(("sp", cx.span(tcx.def_span(did))));
                    impls.push(J::obj(o));
                }
                DefKind::Trait => {
                    let mut ms = Vec::new();
                    for item in tcx.associated_items(did).in_definition_order() {
                        if matches!(item.kind, ty::AssocKind::Fn { .. }) {
                            ms.push(J::obj(vec![
                                ("name", J::Str(item.name().to_string())),
                                ("has_default", J::Bool(item.defaultness(tcx).has_value())),
                            ]));
                        }
                    }
                    traits.push(J::obj(vec![("path", J::Str(dpath(tcx, did))), ("methods", J::Arr(ms))]));
                }
                _ => {}
            }
        }
        let doc = J::obj(vec![
            ("crate", J::Str(krate.clone())),
            ("fns", J::Arr(fns)),
            ("adts", J::Arr(adts)),
            ("consts", J::Arr(consts)),
            ("statics", J::Arr(statics)),
            ("impls", J::Arr(impls)),
            ("traits", J::Arr(traits)),
        ]);
        std::fs::create_dir_all(&out_dir).ok();
        let is_test = std::env::args().any(|a| a == "--test");
        let path = format!("{}/{}{}.{}.json", out_dir, krate, if is_test { ".test" } else { "" }, std::process::id());
        let mut s = String::new();
        doc.write(&mut s);
        std::fs::write(&path, s).expect("write facts");
        Compilation::Continue
    }
}

fn main() {
    let mut args: Vec<String> = std::env::args().collect();
    // RUSTC_WORKSPACE_WRAPPER passes the real rustc as argv[1]
    args.remove(1);
    rustc_driver::run_compiler(&args, &mut Cb);
}
