//! Positive controls: one deliberate violation per zero-expected rule.  Never linked into anything;
//! extracted with the same driver on every run so that a rule that stops matching is noticed.
#![allow(dead_code, unused)]
use std::collections::{HashMap, HashSet};

pub mod determinism {
    use super::*;

    /// R-HASH: order reaches a Vec
    pub fn hash_order_to_vec(m: &HashMap<String, i64>) -> Vec<String> {
        let mut out = Vec::new();
        for (k, _) in m {
            out.push(k.clone());
        }
        out
    }

    /// R-HASH: collected into a Vec that is never sorted
    pub fn hash_collect_unsorted(s: HashSet<u32>) -> Vec<u32> {
        s.into_iter().collect()
    }

    /// R-HASH negative twin: sorted before use (must stay silent)
    pub fn hash_collect_sorted(s: HashSet<u32>) -> Vec<u32> {
        let mut v: Vec<u32> = s.into_iter().collect();
        v.sort();
        v
    }

    /// R-AMBIENT
    pub fn ambient_env() -> usize {
        std::env::var("HOME").map(|s| s.len()).unwrap_or(0)
    }

    pub fn ambient_time() -> u128 {
        std::time::SystemTime::now().elapsed().map(|d| d.as_nanos()).unwrap_or(0)
    }

    pub fn ambient_ptr(x: &u8) -> usize {
        x as *const u8 as usize
    }
}

pub mod idcmp {
    #[derive(Clone, PartialEq)]
    pub struct Identifier {
        pub name: String,
        pub id: usize,
    }
    pub struct Clause {
        pub xtor: Identifier,
        pub body: i64,
    }
    /// R-IDCMP: selects by the id of a name identifier
    pub fn select(clauses: &[Clause], xtor: &Identifier) -> Option<i64> {
        clauses.iter().find(|clause| clause.xtor.id == xtor.id).map(|c| c.body)
    }
}
